#!/usr/bin/env python3
"""
Follow-up probe for finding 2: does background compaction turn the in-memory loss into
a permanent on-disk loss?  (compaction_interval = 3 s, segments_per_merge = 2)
Prints the observations; exit 1 if events are still missing after compaction + restart.
"""
import glob, os, sys, threading, time
sys.path.insert(0, os.path.dirname(os.path.abspath(__file__)))
from harness import Server, Client, query, store_burst
import repro
from repro import observe, segment_complete, log, F, READERS, CTXS

def main():
    srv = Server(port=int(os.environ.get("REPRO_PORT", "17540")), shards=1, fill_factor=F, event_per_zone=1,
                 compaction_interval=3, segments_per_merge=2)
    srv.start()
    try:
        w = Client(srv.port)
        assert "200 OK" in w.cmd('DEFINE ev FIELDS { "id": "int", "kind": "string" }')
        stop = threading.Event()
        def reader():
            cl = Client(srv.port)
            while not stop.is_set():
                query(cl, "QUERY ev")
            cl.close()
        ths = [threading.Thread(target=reader) for _ in range(READERS)]
        for th in ths: th.start()
        stored = list(range(F))
        store_burst(w, ['STORE ev FOR ctx-%d PAYLOAD {"id":%d,"kind":"k%d"}' % (i % CTXS, i, i % 3) for i in stored])
        t0 = time.time()
        while not segment_complete(srv.base, "00000") and time.time() - t0 < 120:
            time.sleep(0.02)
        time.sleep(0.5); stop.set()
        for th in ths: th.join()
        time.sleep(1.0)
        c = Client(srv.port)
        ok, missing = observe(c, stored, "after disturbed flush of seg 00000")
        if ok and os.environ.get("PROBE_CONTROL") != "1":
            log("flush was not disturbed this time; rerun"); return 0
        # second, undisturbed segment so that compaction has k=2 inputs
        more = list(range(F, 2 * F))
        store_burst(w, ['STORE ev FOR ctx-%d PAYLOAD {"id":%d,"kind":"k%d"}' % (i % CTXS, i, i % 3) for i in more])
        t0 = time.time()
        while not segment_complete(srv.base, "00001") and time.time() - t0 < 120:
            time.sleep(0.05)
        time.sleep(1.0)
        observe(c, stored + more, "after undisturbed flush of seg 00001")
        log("  segment dirs: %s" % sorted(d for d in os.listdir(srv.base + "/data/shard-0") if d.isdigit()))
        log("  waiting for background compaction (interval 3 s) ...")
        t0 = time.time()
        while time.time() - t0 < 60:
            dirs = sorted(d for d in os.listdir(srv.base + "/data/shard-0") if d.isdigit())
            if any(int(d) >= 10000 for d in dirs) and "00000" not in dirs:
                break
            time.sleep(0.5)
        time.sleep(2.0)
        log("  segment dirs after %.0f s: %s" % (time.time() - t0, sorted(d for d in os.listdir(srv.base + "/data/shard-0") if d.isdigit())))
        observe(c, stored + more, "after compaction")
        c.close(); w.close()
        srv.stop(); srv.start()
        c = Client(srv.port)
        ok, missing = observe(c, stored + more, "after compaction + restart")
        log("  segment dirs: %s" % sorted(d for d in os.listdir(srv.base + "/data/shard-0") if d.isdigit()))
        log("  ids missing from QUERY after compaction + restart: %d from the first (disturbed) batch, %d from the second batch"
            % (len([i for i in missing if i < F]), len([i for i in missing if i >= F])))
        return 1 if missing else 0
    finally:
        srv.stop()
        if os.environ.get("REPRO_KEEP") != "1":
            srv.cleanup()

if __name__ == "__main__":
    sys.exit(main())
