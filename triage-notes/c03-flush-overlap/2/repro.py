#!/usr/bin/env python3
"""
Baseline finding 2 (unmodified HEAD): reads that overlap a flush leave acknowledged events
invisible AFTER the flush has completed.

Scenario (one shard, memtable capacity F events = F zones per segment, compaction off):
  1. R reader connections loop `QUERY ev`.
  2. F STOREs are pipelined on a writer connection; all F are acknowledged ("200 OK").
     The F-th STORE rotates the memtable and queues the flush of segment 00000.
  3. When the segment is fully on disk the readers are stopped and a `FLUSH` command is
     used as a barrier (the flush worker is serial, so its reply proves that the flush of
     segment 00000 - write, verify, publish, passive release, WAL prune - is over).
  4. With the system idle, a fresh connection runs QUERY / COUNT / REPLAY.
  5. Persistence probes: wait, store + flush a second (undisturbed) batch, restart.

exit 0: every acknowledged event visible exactly once in step 4 in every trial.
exit 1: violated in at least one trial.
"""
import glob, os, struct, sys, threading, time
sys.path.insert(0, os.path.dirname(os.path.abspath(__file__)))
from harness import Server, Client, query, store_burst

F = int(os.environ.get("REPRO_ZONES", "200"))
READERS = int(os.environ.get("REPRO_READERS", "4"))
TRIALS = int(os.environ.get("REPRO_TRIALS", "3"))
PORT = int(os.environ.get("REPRO_PORT", "17530"))
CTXS = 7
HIST = []

def log(msg):
    print(msg, flush=True)

def hist(msg):
    HIST.append(msg); log("  cmd> " + msg)

def observe(c, stored, tag):
    rows = query(c, "QUERY ev")
    ids = [r[4] for r in rows]
    cr = query(c, "QUERY ev COUNT"); cnt = cr[0][0] if cr else 0
    rp = {k: len(query(c, "REPLAY ev FOR ctx-%d" % k)) for k in range(CTXS)}
    exp_rp = {k: sum(1 for i in stored if i % CTXS == k) for k in range(CTXS)}
    seen = [i for i in ids if i is not None]
    missing = sorted(set(stored) - set(seen))
    nulls = sum(1 for r in rows if any(v is None for v in r))
    dup = len(seen) - len(set(seen))
    ok = (not missing and not nulls and not dup and cnt == len(stored) and rp == exp_rp)
    log("  %-34s expected %4d | QUERY rows=%4d missing=%4d null-cell rows=%3d dup=%d | COUNT=%4d | REPLAY sum=%4d (exp %d) -> %s"
        % (tag, len(stored), len(rows), len(missing), nulls, dup, cnt, sum(rp.values()), sum(exp_rp.values()),
           "ok" if ok else "VIOLATION"))
    return ok, missing

def zfc_entries(path):
    sz = os.path.getsize(path)
    return (sz - 20) // 24, sz        # 20-byte BinaryHeader + 24 bytes per zone entry

def disk_state(base, seg):
    d = os.path.join(base, "data", "shard-0", seg)
    log("  on-disk state of segment %s (%s):" % (seg, d))
    if not os.path.isdir(d):
        log("    <missing>"); return
    for z in sorted(glob.glob(os.path.join(d, "*.zfc"))):
        n, sz = zfc_entries(z)
        col = z[:-4] + ".col"
        log("    %-40s %5d bytes = header + %3d zone entries ; %s %d bytes"
            % (os.path.basename(z), sz, n, os.path.basename(col), os.path.getsize(col)))
    idx = os.path.join(base, "data", "shard-0", "segments.idx")
    log("    segments.idx present=%s, wal files=%s" % (os.path.exists(idx),
        sorted(os.path.basename(p) for p in glob.glob(os.path.join(base, "wal", "shard-0", "wal-*.log")))))

def segment_complete(base, seg):
    d = os.path.join(base, "data", "shard-0", seg)
    z = glob.glob(os.path.join(d, "*.zfc"))
    return len(z) >= 6 and all(zfc_entries(p)[0] == F for p in z) and \
        os.path.exists(os.path.join(base, "data", "shard-0", "segments.idx"))

def trial(t):
    log("\n=== trial %d ===" % t)
    srv = Server(port=PORT, shards=1, fill_factor=F, event_per_zone=1, max_inflight=8)
    srv.start()
    violated = False
    try:
        w = Client(srv.port)
        hist('DEFINE ev FIELDS { "id": "int", "kind": "string" }')
        assert "200 OK" in w.cmd('DEFINE ev FIELDS { "id": "int", "kind": "string" }')

        stop = threading.Event(); nreads = [0]
        def reader():
            cl = Client(srv.port)
            while not stop.is_set():
                query(cl, "QUERY ev"); nreads[0] += 1
            cl.close()
        ths = [threading.Thread(target=reader) for _ in range(READERS)]
        hist("%d connections: loop { QUERY ev }   (running while the flush is in progress)" % READERS)
        for th in ths: th.start()

        stored = list(range(F))
        hist("writer: %d x STORE ev FOR ctx-<i%%7> PAYLOAD {\"id\":<i>,\"kind\":\"k<i%%3>\"}  (pipelined)" % F)
        acks = store_burst(w, ['STORE ev FOR ctx-%d PAYLOAD {"id":%d,"kind":"k%d"}' % (i % CTXS, i, i % 3)
                               for i in stored]).count(b"200 OK")
        log("  acknowledged STOREs: %d of %d ('200 OK / Event accepted for storage')" % (acks, F))

        t0 = time.time()
        while not segment_complete(srv.base, "00000") and time.time() - t0 < 120:
            time.sleep(0.02)
        time.sleep(0.5)
        stop.set()
        for th in ths: th.join()
        hist("readers stopped after %d QUERYs; writer: FLUSH   (barrier: flush worker is idle afterwards)" % nreads[0])
        r = w.cmd("FLUSH", idle=1.0)
        log("  FLUSH -> %r" % r.strip())
        time.sleep(0.5)

        c = Client(srv.port)
        hist("fresh connection: QUERY ev / QUERY ev COUNT / REPLAY ev FOR ctx-0..6")
        ok, missing = observe(c, stored, "idle, after flush of seg 00000")
        disk_state(srv.base, "00000")
        if ok:
            log("  no violation in this trial")
            return False
        violated = True
        log("  -> all %d events were acknowledged, the segment on disk is complete, yet reads miss %d of them"
            % (F, len(missing)))

        # ---- how long does it last? ----
        hist("sleep 3 s; same reads again")
        time.sleep(3)
        observe(c, stored, "3 s later")

        hist("writer: %d more STOREs (no concurrent reads) ; FLUSH" % F)
        more = list(range(F, 2 * F))
        store_burst(w, ['STORE ev FOR ctx-%d PAYLOAD {"id":%d,"kind":"k%d"}' % (i % CTXS, i, i % 3) for i in more])
        time.sleep(0.2)
        w.cmd("FLUSH", idle=1.0)
        t0 = time.time()
        while not segment_complete(srv.base, "00001") and time.time() - t0 < 120:
            time.sleep(0.05)
        w.cmd("FLUSH", idle=1.0)
        ok2, missing2 = observe(c, stored + more, "after next (undisturbed) flush")
        log("  -> still missing from the first batch: %d ; missing from the second batch: %d"
            % (len([i for i in missing2 if i < F]), len([i for i in missing2 if i >= F])))

        hist("server restart (SIGTERM, start again on the same data dir)")
        c.close(); w.close()
        srv.stop(); srv.start()
        c = Client(srv.port)
        observe(c, stored + more, "after restart")
    finally:
        srv.stop()
        if os.environ.get("REPRO_KEEP") != "1":
            srv.cleanup()
    return violated

def main():
    hits = sum(1 for t in range(TRIALS) if trial(t))
    log("\nhit rate: property violated in %d of %d trials" % (hits, TRIALS))
    return 1 if hits else 0

if __name__ == "__main__":
    sys.exit(main())
