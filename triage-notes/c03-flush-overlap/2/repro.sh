#!/usr/bin/env bash
# One-command reproduction against whatever is checked out in the worktree (meant for unmodified HEAD).
# exit 0 = every acknowledged event was seen exactly once, 1 = violated, 2 = build failure.
# Env: WORKTREE (default /tmp/wt/C03r2), CARGO_TARGET_DIR (default /tmp/wt/C03r2-target),
#      REPRO_TRIALS (default 3), REPRO_ZONES (default 200), REPRO_PORT, REPRO_KEEP=1 keeps the temp data dir.
set -u
HERE="$(cd "$(dirname "${BASH_SOURCE[0]}")" && pwd)"
WT="${WORKTREE:-/tmp/wt/C03r2}"
export CARGO_TARGET_DIR="${CARGO_TARGET_DIR:-/tmp/wt/C03r2-target}"
( cd "$WT" && cargo build --offline --bin snel_db ) || { echo "build failed"; exit 2; }
export SNEL_BIN="$CARGO_TARGET_DIR/debug/snel_db"
exec python3 "$HERE/repro.py"
