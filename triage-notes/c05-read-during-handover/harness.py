import os, socket, subprocess, sys, time, shutil, tempfile, json

BIN = os.environ.get("SNEL_BIN", "/tmp/wt/C03r2-target/debug/snel_db")

CONFIG_TMPL = """
[wal]
enabled = true
fsync = false
buffered = true
buffer_size = 65536
dir = "{base}/wal"
flush_each_write = true
conservative_mode = false
archive_dir = "{base}/wal/archived"
compression_level = 3
compression_algorithm = "zstd"

[engine]
data_dir = "{base}/data"
index_dir = "{base}/index"
shard_count = {shards}
fill_factor = {fill_factor}
event_per_zone = {event_per_zone}
compaction_threshold = 1000
compaction_interval = {compaction_interval}
sys_io_threshold = 10
max_inflight_passives = {max_inflight}
level_span = 10000
segment_id_pad = 5
segments_per_merge = {segments_per_merge}
compaction_max_shard_concurrency = 1

[server]
socket_path = "{base}/sneldb.sock"
log_level = "error"
output_format = "json"
tcp_addr = "127.0.0.1:{port}"
http_addr = "127.0.0.1:{port2}"
ws_addr = "127.0.0.1:{port3}"
auth_token = "test"
backpressure_threshold = 90

[logging]
log_dir = "{base}/logs"
stdout_level = "error"
file_level = "error"

[schema]
def_dir = "{base}/schema"

[playground]
enabled = false
allow_unauthenticated = true

[time]
timezone = "UTC"
week_start = "Mon"
use_calendar_bucketing = true

[query]
zone_index_cache_max_entries = 1024
column_block_cache_max_bytes = 268435456
zone_surf_cache_max_bytes = 104857600

[auth]
bypass_auth = true
"""

class Server:
    def __init__(self, port=17310, shards=1, fill_factor=3, event_per_zone=1, max_inflight=8, base=None,
                 compaction_interval=100000, segments_per_merge=1000):
        self.base = base or tempfile.mkdtemp(prefix="c03demo_")
        self.port = port
        cfg = CONFIG_TMPL.format(base=self.base, port=port, port2=port+1, port3=port+2,
                                 shards=shards, fill_factor=fill_factor,
                                 event_per_zone=event_per_zone, max_inflight=max_inflight,
                                 compaction_interval=compaction_interval, segments_per_merge=segments_per_merge)
        self.cfg_path = os.path.join(self.base, "config.toml")
        with open(self.cfg_path, "w") as f:
            f.write(cfg)
        self.proc = None

    def start(self):
        env = dict(os.environ)
        env["SNELDB_CONFIG"] = self.cfg_path
        env["SNELDB_PRESERVE_DATA"] = "1"
        env["RUST_LOG"] = "error"
        self.log = open(os.path.join(self.base, "server.out"), "ab")
        self.proc = subprocess.Popen([BIN], env=env, stdout=self.log, stderr=self.log, cwd=self.base)
        for _ in range(100):
            try:
                s = socket.create_connection(("127.0.0.1", self.port), timeout=1)
                s.close()
                return
            except OSError:
                if self.proc.poll() is not None:
                    raise RuntimeError("server exited: see %s/server.out" % self.base)
                time.sleep(0.1)
        raise RuntimeError("server did not come up")

    def stop(self, kill=False):
        if self.proc and self.proc.poll() is None:
            if kill:
                self.proc.kill()
            else:
                self.proc.terminate()
            try:
                self.proc.wait(timeout=10)
            except subprocess.TimeoutExpired:
                self.proc.kill(); self.proc.wait()
        self.proc = None

    def cleanup(self):
        self.stop()
        shutil.rmtree(self.base, ignore_errors=True)

class Client:
    def __init__(self, port):
        self.s = socket.create_connection(("127.0.0.1", port), timeout=30)
        self.buf = b""

    def send(self, cmd):
        self.s.sendall(cmd.encode() + b"\n")

    def read_until_idle(self, idle=0.3, maxwait=30):
        """read whatever arrives until `idle` seconds of silence"""
        self.s.settimeout(idle)
        out = b""
        start = time.time()
        while time.time() - start < maxwait:
            try:
                d = self.s.recv(65536)
                if not d:
                    break
                out += d
            except socket.timeout:
                if out:
                    break
        return out.decode(errors="replace")

    def cmd(self, c, idle=0.3):
        self.send(c)
        return self.read_until_idle(idle)

    def close(self):
        try: self.s.close()
        except OSError: pass

def read_response(c, timeout=30):
    """Read one streaming JSON response (until {"type":"end"...}) or a plain status response."""
    c.s.settimeout(timeout)
    while True:
        # complete?
        text = c.buf.decode(errors="replace")
        idx = text.find('{"type":"end"')
        if idx >= 0:
            nl = text.find("\n", idx)
            if nl >= 0:
                resp = text[:nl+1]
                c.buf = text[nl+1:].encode()
                return resp
        # plain status response (e.g. "500 ..." error) instead of a JSON stream?
        m = STATUS_RE.match(text)
        if m and text.endswith("\n"):
            c.buf = b""
            if not m.group(0).startswith("200"):
                ERROR_FRAMES.append(text.strip())
            return text
        d = c.s.recv(65536)
        if not d:
            raise RuntimeError("connection closed; partial: %r" % c.buf[-300:])
        c.buf += d

import re
STATUS_RE = re.compile(r"^[1-5]\d\d [^\n]*\n")
ERROR_FRAMES = []   # every non-200 status response seen by query()

def query(c, q):
    c.send(q)
    resp = read_response(c)
    rows = []
    for line in resp.splitlines():
        line = line.strip()
        if line.startswith('{"type":"batch"'):
            rows += json.loads(line)["rows"]
    return rows

def store_burst(c, cmds):
    c.s.sendall(("\n".join(cmds) + "\n").encode())
    need = len(cmds)
    c.s.settimeout(60)
    buf = b""
    while buf.count(b"Event accepted") < need:
        d = c.s.recv(65536)
        if not d: raise RuntimeError("closed")
        buf += d
        if b"400" in buf or b"500" in buf:
            pass
    return buf
