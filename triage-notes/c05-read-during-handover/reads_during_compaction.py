#!/usr/bin/env python3
"""Control experiment: do reads that overlap background COMPACTION (not a flush) misbehave,
independently of the atomic-write patch?  Two batches are flushed without any concurrent
read; then one connection reads continuously while the compactor (interval 3 s,
segments_per_merge 2) merges the two L0 segments.  Prints every anomalous read."""
import os, sys, time
sys.path.insert(0, "/tmp/wt/C03r2-out/baseline/2")
from harness import Server, Client, query, store_burst, ERROR_FRAMES
from repro import segment_complete, F, CTXS

def main():
    srv = Server(port=17590, shards=1, fill_factor=F, event_per_zone=1, compaction_interval=3, segments_per_merge=2)
    srv.start()
    try:
        w = Client(srv.port)
        assert "200 OK" in w.cmd('DEFINE ev FIELDS { "id": "int", "kind": "string" }')
        for b in range(2):
            store_burst(w, ['STORE ev FOR ctx-%d PAYLOAD {"id":%d,"kind":"k%d"}' % (i % CTXS, i, i % 3) for i in range(b*F, (b+1)*F)])
            t0 = time.time()
            while not segment_complete(srv.base, "%05d" % b) and time.time() - t0 < 60:
                if any(int(d) >= 10000 for d in os.listdir(srv.base + "/data/shard-0") if d.isdigit()): break
                time.sleep(0.02)
            time.sleep(0.3)
        c = Client(srv.port)
        t0 = time.time(); reads = 0; bad = 0; last = None
        while time.time() - t0 < 10:
            rows = query(c, "QUERY ev")
            ids = [r[4] for r in rows]
            nulls = sum(1 for r in rows if any(v is None for v in r))
            cr = query(c, "QUERY ev COUNT"); cnt = cr[0][0] if cr else 0
            dirs = sorted(d for d in os.listdir(srv.base + "/data/shard-0") if d.isdigit())
            reads += 1
            ok = (len(set(i for i in ids if i is not None)) == 2*F and nulls == 0 and cnt == 2*F)
            if not ok:
                bad += 1
            key = (ok, len(rows), nulls, cnt, tuple(dirs))
            if key != last:
                print("  t=%.2fs rows=%d distinct ids=%d null-cell rows=%d COUNT=%d dirs=%s -> %s"
                      % (time.time()-t0, len(rows), len(set(i for i in ids if i is not None)), nulls, cnt, dirs, "ok" if ok else "ANOMALY"), flush=True)
                last = key
        print("reads=%d anomalous=%d error frames=%d" % (reads, bad, len(ERROR_FRAMES)))
    finally:
        srv.stop(); srv.cleanup()
main()
