#!/usr/bin/env bash
# NOTE (not a demo of a seeded change): on the UNMODIFIED tree, a backward clock
# step across a restart yields ids that are lower than ids recovered from the WAL.
set -u
WT=/tmp/wt/C18r2
export CARGO_TARGET_DIR=/tmp/wt/C18r2-target
D2=/tmp/wt/C18r2-out/change2/demo
D1=/tmp/wt/C18r2-out/change1/demo
PORT=7395
TMP="$(mktemp -d /tmp/c18r2-note.XXXXXX)"
SRV=""
cleanup() { [ -n "$SRV" ] && { kill "$SRV" 2>/dev/null; wait "$SRV" 2>/dev/null; }; rm -rf "$TMP"; }
trap cleanup EXIT
gcc -O2 -shared -fPIC -o "$TMP/fakeclock.so" "$D1/fakeclock.c" -ldl || exit 2
( cd "$WT" && cargo build --offline --bin snel_db ) > "$TMP/build.log" 2>&1 || { tail "$TMP/build.log"; exit 2; }
BIN="$CARGO_TARGET_DIR/debug/snel_db"
sed -e "s#@TMP@#$TMP#g" -e "s#@PORT@#$PORT#g" -e "s#@HTTP@#$((PORT+1))#g" -e "s#@WS@#$((PORT+2))#g" "$D2/config.toml.in" > "$TMP/config.toml"
start() { ( cd "$TMP" && SNELDB_CONFIG="$TMP/config.toml" SNELDB_PRESERVE_DATA=1 RUST_LOG=error LD_PRELOAD="$TMP/fakeclock.so" C18_FAKE_CLOCK_OFFSET_MS="$1" exec "$BIN" >>"$TMP/server.log" 2>&1 ) & SRV=$!; }
start 0
python3 - 127.0.0.1 "$PORT" <<'PY'
import sys; sys.path.insert(0,'/tmp/wt/C18r2-out/change2/demo')
import client
pass
s=client.connect()
print(client.send(s,'DEFINE c18evt FIELDS { "n": "int" }').strip())
for n in (1,2): client.send(s,'STORE c18evt FOR ctx-%02d PAYLOAD {"n": %d}'%(n,n))
rows=client.rows_of(client.send(s,'QUERY c18evt',quiet=1.0))
print('before restart:',[(r['n'],r['event_id']) for r in rows])
PY
kill "$SRV"; wait "$SRV" 2>/dev/null; SRV=""
start -60000   # the machine comes back with its clock one minute in the past
python3 - 127.0.0.1 "$PORT" <<'PY'
import sys; sys.path.insert(0,'/tmp/wt/C18r2-out/change2/demo')
import client
pass
s=client.connect()
client.send(s,'STORE c18evt FOR ctx-03 PAYLOAD {"n": 3}')
rows=client.rows_of(client.send(s,'QUERY c18evt',quiet=1.0))
got=sorted((int(r['n']),int(r['event_id'])) for r in rows)
print('after restart :',got)
ids=[i for _,i in got]
print('ids increase in append order:', ids==sorted(ids) and len(set(ids))==len(ids))
PY
