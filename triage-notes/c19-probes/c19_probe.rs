use snel_db::engine::core::{WalArchiveRecovery, WalArchiver, WalCleaner};
use snel_db::shared::config::CONFIG;
use std::fs;

fn line(ts: u64, ctx: &str, id: u64) -> String {
    format!(r#"{{"timestamp":{ts},"context_id":"{ctx}","event_type":"t","payload":{{"k":1}},"event_id":{id}}}"#)
}

#[test]
fn probe_order_over_99999() {
    let tmp = tempfile::TempDir::new().unwrap();
    let wal = tmp.path().join("wal");
    let arc = tmp.path().join("arc");
    fs::create_dir_all(&wal).unwrap();
    fs::write(wal.join("wal-99999.log"), line(10, "first", 1) + "\n").unwrap();
    fs::write(wal.join("wal-100000.log"), line(20, "second", 2) + "\n").unwrap();
    let a = WalArchiver::with_dirs(0, wal.clone(), arc.clone(), 3);
    for r in a.archive_logs_up_to(100001) { r.unwrap(); }
    let rec = WalArchiveRecovery::new(0, arc).recover_all().unwrap();
    let order: Vec<_> = rec.iter().map(|e| e.context_id.clone()).collect();
    println!("PROBE1 recovered order = {:?}", order);
}

#[test]
fn probe_with_wal_dir_conservative() {
    assert!(CONFIG.wal.conservative_mode);
    let tmp = tempfile::TempDir::new().unwrap();
    let wal = tmp.path().join("shard-5");
    fs::create_dir_all(&wal).unwrap();
    fs::write(wal.join("wal-00001.log"), line(10, "x", 1) + "\n").unwrap();
    WalCleaner::with_wal_dir(5, wal.clone()).cleanup_up_to(2);
    let arc = std::path::PathBuf::from(CONFIG.wal.archive_dir.clone()).join("shard-5");
    let rec = WalArchiveRecovery::new(5, arc).recover_all().unwrap();
    println!("PROBE2 wal exists={} recovered={}", wal.join("wal-00001.log").exists(), rec.len());
}
