use std::io::Cursor;
use std::sync::Arc;

use arrow_ipc::reader::StreamReader;

use crate::engine::core::read::flow::{BatchSchema, ColumnBatch};
use crate::engine::core::read::result::ColumnSpec;
use crate::engine::types::ScalarValue;
use crate::shared::response::render::Renderer;
use crate::shared::response::{ArrowStreamEncoder, JsonRenderer};

fn spec(n: &str, t: &str) -> ColumnSpec {
    ColumnSpec { name: n.to_string(), logical_type: t.to_string() }
}

#[test]
fn c20_preexisting_probe() {
    let schema = Arc::new(
        BatchSchema::new(vec![
            spec("id", "Integer"),
            spec("score", "Float"),
            spec("note", "String"),
            spec("payload", "JSON"),
        ])
        .unwrap(),
    );
    let u = |s: &str| ScalarValue::Utf8(s.to_string());
    let rows = vec![
        vec![ScalarValue::Int64(1), ScalarValue::Float64(1.5), u("a"), u("x")],
        vec![u("42"), ScalarValue::Float64(f64::NAN), u("18446744073709551615"), u(r#"{"a":1}"#)],
        vec![u("18446744073709551615"), ScalarValue::Int64(i64::MAX), u("b"), u("[1]")],
    ];
    let columns: Vec<Vec<ScalarValue>> = (0..4).map(|c| rows.iter().map(|r| r[c].clone()).collect()).collect();
    let batch = ColumnBatch::new(Arc::clone(&schema), columns, rows.len(), None).unwrap();

    let mut out = Vec::new();
    JsonRenderer.stream_batch(&["id", "score", "note", "payload"], &rows, &mut out);
    println!("JSON frames : {}", String::from_utf8_lossy(&out).trim());

    for (label, idx) in [("arrow whole batch (row_indices=None)", None), ("arrow row_indices=[0,1,2]", Some(vec![0usize, 1, 2]))] {
        let mut enc = ArrowStreamEncoder::new(&schema).unwrap();
        let mut stream = Vec::new();
        let mut buf = Vec::new();
        enc.write_schema(&mut buf).unwrap();
        stream.extend_from_slice(&buf);
        enc.write_batch(&schema, &batch, idx.as_deref(), &mut buf).unwrap();
        stream.extend_from_slice(&buf);
        enc.write_end(&mut buf).unwrap();
        stream.extend_from_slice(&buf);
        let reader = StreamReader::try_new(Cursor::new(stream), None).unwrap();
        for rb in reader {
            let rb = rb.unwrap();
            println!("{label}:");
            for c in 0..rb.num_columns() {
                println!("   {:?}", rb.column(c));
            }
        }
    }
}
