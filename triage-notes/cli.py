import socket, sys, time
def send(port, cmds, wait=0.4):
    out=[]
    s=socket.create_connection(("127.0.0.1",port),timeout=5)
    s.settimeout(wait)
    for c in cmds:
        s.sendall((c+"\n").encode())
        buf=b""
        t0=time.time()
        while True:
            try:
                d=s.recv(65536)
                if not d: break
                buf+=d
            except socket.timeout:
                break
        out.append((c,buf.decode(errors="replace")))
    s.close()
    return out
if __name__=="__main__":
    port=int(sys.argv[1])
    for c,r in send(port, sys.argv[2:]):
        print(">>",c); print(r)
