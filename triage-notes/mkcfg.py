import sys, os
name, epz, ff, shards, comp_int, spm = sys.argv[1], sys.argv[2], sys.argv[3], sys.argv[4], sys.argv[5], sys.argv[6]
extra_auth = sys.argv[7] if len(sys.argv) > 7 else "bypass_auth = true\nrate_limit_enabled = false"
d = f"/var/tmp/vt/triage/{name}"
os.makedirs(d, exist_ok=True)
port = 17000 + (hash(name) % 500)
open(f"{d}/cfg.toml","w").write(f'''
[wal]
enabled = true
fsync = false
buffered = false
buffer_size = "1KB"
dir = "{d}/wal/"
flush_each_write = true
fsync_every_n = 1
conservative_mode = false
archive_dir = "{d}/wal/archived/"
compression_level = 3
compression_algorithm = "zstd"
[engine]
fill_factor = {ff}
data_dir = "{d}/cols"
index_dir = "{d}/index/"
shard_count = {shards}
event_per_zone = {epz}
compaction_interval = {comp_int}
sys_io_threshold = 100000
sys_memory_threshold_mb = "1MB"
max_inflight_passives = 8
segments_per_merge = {spm}
compaction_max_shard_concurrency = 1
[schema]
def_dir="{d}/schema/"
[server]
socket_path = "{d}/sock"
log_level = "error"
output_format = "json"
tcp_addr = "127.0.0.1:{port}"
http_addr = "127.0.0.1:{port+1000}"
ws_addr = "127.0.0.1:{port+2000}"
auth_token = "t"
[playground]
enabled = false
allow_unauthenticated = true
[auth]
{extra_auth}
[logging]
log_dir = "{d}/logs"
stdout_level = "error"
file_level = "error"
[query]
zone_index_cache_max_entries = 256
column_block_cache_max_bytes = "64MB"
zone_surf_cache_max_bytes = "10MB"
[time]
timezone = "UTC"
week_start = "Mon"
use_calendar_bucketing = true
''')
print(port)
