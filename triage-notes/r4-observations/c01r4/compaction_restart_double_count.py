import sys, shutil, time, os
sys.path.insert(0, "/tmp/wt/C01r4-out/harness")
from snel import Server, rows_of
root="/tmp/wt/C01r4-out/scratch/r8"
shutil.rmtree(root, ignore_errors=True)
s=Server("/tmp/wt/C01r4-target/debug/snel_db", root, 17600, engine=dict(fill_factor=2, shard_count=1, compaction_interval=2), wal=dict(flush_each_write=True))
s.start()
s.send('DEFINE evt FIELDS { "v": "int" }')
def ls():
    for d,_,fs in os.walk(root+"/wal"):
        for f in sorted(fs): print("   ", d[-7:], f, open(os.path.join(d,f)).read().count("\n"))
    for sh in sorted(os.listdir(root+"/data")):
        print("    segs", sh, sorted(os.listdir(root+"/data/"+sh)))
def q():
    r=rows_of(s.send('QUERY evt'))
    print(sorted(x[4] for x in r), "COUNT", rows_of(s.send('QUERY evt COUNT')), "WHERE-COUNT", rows_of(s.send('QUERY evt WHERE v>=0 COUNT')))
n=0
def store(k):
    global n
    for i in range(k):
        n+=1
        s.send('STORE evt FOR c%d PAYLOAD {"v":%d}'%(n,n))
store(2); time.sleep(4); ls(); q()
s.kill9(); s.start(); print("restart 1"); ls(); q()
store(2); time.sleep(1); ls(); q()
s.kill9(); s.start(); print("restart 2"); ls(); q()
s.kill9()
