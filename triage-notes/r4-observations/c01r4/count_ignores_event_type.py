import sys, shutil, time, os
sys.path.insert(0, "/tmp/wt/C01r4-out/harness")
from snel import Server, rows_of
root="/tmp/wt/C01r4-out/scratch/r6"
shutil.rmtree(root, ignore_errors=True)
s=Server("/tmp/wt/C01r4-target/debug/snel_db", root, 17600, engine=dict(fill_factor=8, shard_count=1))
s.start()
s.send('DEFINE aa FIELDS { "v": "int" }')
s.send('DEFINE bb FIELDS { "v": "int" }')
s.send('STORE aa FOR x PAYLOAD {"v":1}')
s.send('STORE bb FOR y PAYLOAD {"v":2}')
s.send('STORE bb FOR z PAYLOAD {"v":3}')
print(rows_of(s.send('QUERY aa COUNT')), rows_of(s.send('QUERY bb COUNT')), len(rows_of(s.send('QUERY aa'))))
s.kill9()
