import sys, shutil, time, os
sys.path.insert(0, "/tmp/wt/C01r4-out/harness")
from snel import Server, rows_of
root="/tmp/wt/C01r4-out/scratch/r2"
shutil.rmtree(root, ignore_errors=True)
s=Server("/tmp/wt/C01r4-target/debug/snel_db", root, 17600, engine=dict(fill_factor=3))
s.start()
s.send('DEFINE evt FIELDS { "v": "int" }')
def ls():
    for d,_,fs in os.walk(root+"/wal"):
        for f in fs: print("   ", os.path.join(d,f), open(os.path.join(d,f)).read().count("\n"))
    print("    segs", sorted(os.listdir(root+"/data/shard-0")) if os.path.exists(root+"/data/shard-0") else None)
print(s.send('STORE evt FOR a PAYLOAD {"v":1}')); ls()
print(s.send('FLUSH')); time.sleep(0.5); ls()
print(s.send('STORE evt FOR b PAYLOAD {"v":2}')); ls()
print(rows_of(s.send('QUERY evt')))
s.kill9()
s.start()
print(rows_of(s.send('QUERY evt'))); ls()
s.kill9()
