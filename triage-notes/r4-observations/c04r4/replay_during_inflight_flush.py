import sys, os, time, json
sys.path.insert(0, "/tmp/wt/C04r4-out/change2/demo")
from sneldb_harness import Server
BURST=96
s = Server(sys.argv[1], "/tmp/wt/C04r4-out/preexisting/run", event_per_zone=2, fill_factor=2, max_inflight_passives=int(sys.argv[2]) if len(sys.argv)>2 else 2, segments_per_merge=8, compaction_interval=3600, tcp_port=17631, http_port=17632, ws_port=17633)
s.start()
try:
    s.ok('DEFINE transfer FIELDS { "n": "int" }')
    s.ok('DEFINE fee FIELDS { "n": "int" }')
    commands, expected = [], {}
    for n in range(1, BURST + 1):
        ctx = "acct-7" if n % 4 else "acct-%d" % (n % 3)
        et = "fee" if n % 5 == 0 else "transfer"
        commands.append('STORE %s FOR %s PAYLOAD {"n": %d}' % (et, ctx, n))
        expected.setdefault(ctx, []).append((et, n))
    s.pipeline(commands)
    want = expected["acct-7"]
    for rnd in range(40):
        segs = sorted(d for d in os.listdir(s.base+"/data/shard-0") if d.isdigit())
        rows = s.replay("REPLAY FOR acct-7")
        got = [(r["event_type"], r["n"]) for r in rows]
        if got != want:
            print("round", rnd, "segments", len(segs), "MISMATCH len", len(got), len(want))
            ids=[r["event_id"] for r in rows]
            print(" ids sorted:", ids==sorted(ids), "dups:", len(ids)-len(set(ids)))
            for i,(g,w) in enumerate(zip(got,want)):
                if g!=w:
                    print(" first diff at", i, "got", got[i:i+6], "want", want[i:i+6])
                    print(" rows", rows[max(0,i-2):i+4])
                    break
        else:
            print("round", rnd, "segments", len(segs), "ok")
        if len(segs) >= BURST//4: break
        time.sleep(0.1)
finally:
    s.stop()
