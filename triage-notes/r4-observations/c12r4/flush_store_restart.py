#!/usr/bin/env python3
"""UNMODIFIED tree: events stored after an explicit FLUSH are lost by a restart
(FLUSH removes the shard's WAL file and later STOREs are not logged to a new one)."""
from sneldb_demo import Server
srv = Server(shards=2, event_per_zone=4, fill_factor=2)
try:
    srv.start()
    srv.ok('DEFINE ev FIELDS { "n": "int" }')
    for i in range(1, 7):
        srv.ok('STORE ev FOR "c%d" PAYLOAD {"n": %d}' % (i, i))
    srv.ok("FLUSH")
    for i in range(7, 13):
        srv.ok('STORE ev FOR "c%d" PAYLOAD {"n": %d}' % (i, i))
    cols, rows = srv.rows("QUERY ev")
    print("before restart:", sorted(r[cols.index("n")] for r in rows))
    srv.restart()   # SIGTERM + start on the same directories
    cols, rows = srv.rows("QUERY ev")
    print("after restart: ", sorted(r[cols.index("n")] for r in rows))
    cols, rows = srv.rows('QUERY ev FOR "c7"')
    print('QUERY ev FOR "c7" after restart:', rows)
finally:
    srv.cleanup()
