#!/usr/bin/env python3
"""UNMODIFIED tree: QUERY .. ORDER BY n ASC LIMIT 3 omits the smallest row (RLTE string-greedy
fallback prunes the zone that holds it), while LIMIT 5 / no LIMIT return it."""
from sneldb_demo import Server, shard_of
srv = Server(shards=3, event_per_zone=2, fill_factor=1)
try:
    srv.start()
    srv.ok('DEFINE ev FIELDS { "n": "int", "tag": "string" }')
    srv.ok('STORE ev FOR ctx1 PAYLOAD {"n": 1, "tag": "a"}')
    srv.ok('STORE ev FOR ctx2 PAYLOAD {"n": 2, "tag": "b"}')
    srv.ok('STORE ev FOR "ctx 3" PAYLOAD {"n": 3, "tag": "c"}')
    for i in range(40):
        srv.ok('STORE ev FOR c%d PAYLOAD {"n": %d, "tag": "%s"}' % (i, 100 - i, "x" if i % 7 == 0 else "y"))
    srv.ok("FLUSH")
    for q in ("QUERY ev ORDER BY n ASC LIMIT 3", "QUERY ev ORDER BY n ASC LIMIT 5", "QUERY ev WHERE n < 4"):
        cols, rows = srv.rows(q)
        print(q, "->", [(r[cols.index("context_id")], shard_of(r[cols.index("event_id")]), r[cols.index("n")]) for r in rows])
finally:
    srv.cleanup()
