"""Tiny harness: build the server from the worktree, run it on a scratch data dir,
talk to it over TCP.  Only the server pid started here is ever killed."""
import json, os, shutil, signal, socket, subprocess, sys, tempfile, time

WORKTREE = os.environ.get("WORKTREE", "/tmp/wt/C12r4")
TARGET = os.environ.get("CARGO_TARGET_DIR", "/tmp/wt/C12r4-target")

CONFIG = """
[wal]
enabled = true
fsync = false
buffered = false
buffer_size = "100KB"
dir = "{d}/wal/"
flush_each_write = true
fsync_every_n = 1024
conservative_mode = false
archive_dir = "{d}/wal/archived/"
compression_level = 3
compression_algorithm = "zstd"

[engine]
fill_factor = {fill_factor}
data_dir = "{d}/cols"
index_dir = "{d}/index/"
shard_count = {shards}
event_per_zone = {event_per_zone}
compaction_interval = 3600
sys_io_threshold = 10
sys_memory_threshold_mb = "128MB"
max_inflight_passives = 8
segments_per_merge = 2
compaction_max_shard_concurrency = 1

[schema]
def_dir = "{d}/schema/"

[server]
socket_path = "{d}/sneldb.sock"
log_level = "error"
output_format = "json"
tcp_addr = "127.0.0.1:{tcp}"
http_addr = "127.0.0.1:{http}"
ws_addr = "127.0.0.1:{ws}"
auth_token = "demo"

[playground]
enabled = true
allow_unauthenticated = true

[auth]
bypass_auth = true
rate_limit_enabled = false

[logging]
log_dir = "{d}/logs"
stdout_level = "error"
file_level = "error"

[query]
zone_index_cache_max_entries = 256
column_block_cache_max_bytes = "64MB"
zone_surf_cache_max_bytes = "10MB"

[time]
timezone = "UTC"
week_start = "Mon"
use_calendar_bucketing = true
"""


def build():
    env = dict(os.environ, CARGO_TARGET_DIR=TARGET)
    r = subprocess.run(["cargo", "build", "--offline", "--bin", "snel_db"],
                       cwd=WORKTREE, env=env, stdout=subprocess.PIPE, stderr=subprocess.STDOUT)
    if r.returncode != 0:
        sys.stdout.write(r.stdout.decode(errors="replace"))
        sys.exit("build failed")
    return os.path.join(TARGET, "debug", "snel_db")


def free_ports(n):
    socks = [socket.socket() for _ in range(n)]
    for s in socks:
        s.bind(("127.0.0.1", 0))
    ports = [s.getsockname()[1] for s in socks]
    for s in socks:
        s.close()
    return ports


class Server:
    def __init__(self, shards=4, event_per_zone=4, fill_factor=2):
        self.binary = build()
        self.dir = tempfile.mkdtemp(prefix="sneldb-c12-")
        self.tcp, http, ws = free_ports(3)
        with open(os.path.join(self.dir, "config.toml"), "w") as f:
            f.write(CONFIG.format(d=self.dir, shards=shards, event_per_zone=event_per_zone,
                                  fill_factor=fill_factor, tcp=self.tcp, http=http, ws=ws))
        self.proc = None

    def start(self):
        env = dict(os.environ, SNELDB_CONFIG=os.path.join(self.dir, "config.toml"))
        log = open(os.path.join(self.dir, "server.log"), "ab")
        self.proc = subprocess.Popen([self.binary], cwd=self.dir, env=env, stdout=log, stderr=log)
        deadline = time.time() + 60
        while time.time() < deadline:
            if self.proc.poll() is not None:
                sys.exit("server exited early, see %s/server.log" % self.dir)
            try:
                socket.create_connection(("127.0.0.1", self.tcp), timeout=0.5).close()
                time.sleep(0.3)
                return
            except OSError:
                time.sleep(0.2)
        sys.exit("server did not come up")

    def stop(self):
        if self.proc and self.proc.poll() is None:
            self.proc.send_signal(signal.SIGTERM)
            try:
                self.proc.wait(timeout=20)
            except subprocess.TimeoutExpired:
                self.proc.kill()
                self.proc.wait()
        self.proc = None

    def restart(self):
        self.stop()
        self.start()

    def cleanup(self):
        self.stop()
        shutil.rmtree(self.dir, ignore_errors=True)

    # --- protocol -------------------------------------------------------
    def command(self, line, timeout=20.0):
        """Send one command on a fresh connection, return the raw reply text."""
        s = socket.create_connection(("127.0.0.1", self.tcp))
        s.sendall((line + "\n").encode())
        buf = b""
        s.settimeout(0.4)
        deadline = time.time() + timeout
        while time.time() < deadline:
            try:
                d = s.recv(1 << 16)
                if not d:
                    break
                buf += d
            except socket.timeout:
                if buf and self._complete(buf):
                    break
        s.close()
        return buf.decode(errors="replace")

    @staticmethod
    def _complete(buf):
        text = buf.decode(errors="replace").rstrip()
        if not text:
            return False
        last = text.splitlines()[-1]
        if last.startswith("{"):
            return '"type":"end"' in last or '"status"' in last or '"message"' in last
        return True

    def ok(self, line):
        r = self.command(line)
        if not r.startswith("200"):
            sys.exit("command failed: %s\n%s" % (line[:120], r[:300]))
        return r

    def rows(self, line):
        """Run a QUERY/REPLAY, return (column names, list of rows)."""
        r = self.command(line)
        cols, rows = None, []
        for l in r.splitlines():
            try:
                j = json.loads(l)
            except ValueError:
                sys.exit("unexpected reply to %s:\n%s" % (line[:120], r[:400]))
            if j.get("type") == "schema":
                cols = [c["name"] for c in j["columns"]]
            elif j.get("type") == "batch":
                rows += j["rows"]
            elif j.get("type") != "end":
                sys.exit("unexpected reply to %s:\n%s" % (line[:120], r[:400]))
        return cols, rows


def shard_of(event_id):
    """Shard tag embedded in an event id (10 bits above the 12 sequence bits)."""
    return (int(event_id) >> 12) & 0x3FF
