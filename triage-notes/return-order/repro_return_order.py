#!/usr/bin/env python3
"""RETURN [a, b, c] on unflushed data: the values must sit under their own column names.
exit 0 = every one of N queries returns page/uid/at under their headers; exit 1 = a value appears under another column."""
import os, sys
sys.path.insert(0, "/var/tmp/tf/out/common")
os.environ.setdefault("TF_TMP", "/var/tmp/ret")
import harness
srv = harness.Server(1)
bad = 0
try:
    setup = ['DEFINE pv FIELDS {"page":"string","uid":"string","at":"int"}'] + \
            ['STORE pv FOR c%d PAYLOAD {"page":"p%d","uid":"u%d","at":%d}' % (i, i, i, 1000 + i) for i in range(4)]
    for c, r in srv.send(setup, wait=0.15):
        if "200" not in r and "OK" not in r: print("setup?", c, r[:100])
    for n in range(30):
        (_, resp), = srv.send(['QUERY pv RETURN ["page","uid","at"]'], wait=0.5)
        rows = harness.parse_rows(resp)
        for r in rows:
            f = harness.flat(r)
            ok = str(f.get("page", "")).startswith("p") and str(f.get("uid", "")).startswith("u") and isinstance(f.get("at"), int)
            if not ok:
                bad += 1
                if bad <= 3: print("query #%d: row with values under the wrong columns: %s" % (n, {k: f.get(k) for k in ("page", "uid", "at")}))
        if len(rows) != 4: print("rows:", len(rows), resp[:200])
finally:
    srv.stop()
print("rows with misplaced values: %d" % bad)
sys.exit(1 if bad else 0)
