#!/bin/bash
# usage: run.sh name epz ff shards comp_int spm -> starts server in background, prints port
name=$1
port=$(python3 mkcfg.py "$@")
cd /var/tmp/vt/triage/$name
SNELDB_CONFIG=/var/tmp/vt/triage/$name/cfg.toml SNELDB_PRESERVE_DATA=1 RUST_LOG=error nohup /var/tmp/vt/target/debug/snel_db > server.log 2>&1 &
echo $! > pid
sleep 1.5
echo $port
