#!/usr/bin/env python3
"""A1: an out-of-range number in a datetime field is answered 200 and stored as a saturated i64.

DEFINE ev FIELDS { "at": "datetime" }; STORE ev FOR k<i> PAYLOAD {"at":<v>}; QUERY ev

Correct (exit 0): every number that is not a representable time is refused (non-200, nothing stored),
and every input that is stored today with a sensible value is still stored with the same value.
Violated (exit 1): otherwise.

usage: SNEL_BIN=<server binary> ./repro.py        (default: unmodified-tree binary)
"""
import json, sys
sys.path.insert(0, "/var/tmp/ta/out/common")
from harness import Server, print_history, status_of, verdict

I64MAX, I64MIN = 9223372036854775807, -9223372036854775808
# (json spelling, expected stored value or None = must be refused)
CASES = [
    # out of range: must be refused
    ("1e300", None), ("-1e300", None), ("1e19", None), ("9.3e18", None), ("-9.3e18", None),
    ("1e18", None),                       # float = seconds: year 31 billion
    ("18446744073709551616", None),       # 2^64: parsed as a float by the JSON layer
    ("-9223372036854775809", None),       # i64::MIN - 1: parsed as a float
    ("18446744073709551615", None),       # u64::MAX: 20 digits, refused by the integer branch today
    ("1e400", None), ("NaN", None), ("Infinity", None), ("-Infinity", None),   # not JSON
    # in range: must keep today's value
    ("1.5", 1), ("-1.5", -2), ("1735689600.0", 1735689600), ("1735689600.9", 1735689600),
    ("253402300799.0", 253402300799),     # 9999-12-31T23:59:59Z as float seconds
    ("1e12", 1000000000000),              # float seconds, year 33658 (chrono can represent it)
    ("-0.0", 0),
    ("1735689600", 1735689600), ("1735689600000", 1735689600), ("99999999999", 99999999999),
    ("-99999999999", -99999999999), ("100000000000", 100000000),
    ("9223372036854775807", 9223372036), ("-9223372036854775808", -9223372036),   # 19 digits = ns
    ('"9999-12-31T23:59:59Z"', 253402300799), ('"0000-01-01T00:00:00Z"', -62167219200),
]

srv = Server().start()
try:
    c = srv.conn()
    c.send('DEFINE ev FIELDS { "at": "datetime" }')
    resp = [c.send('STORE ev FOR k%d PAYLOAD {"at":%s}' % (i, v)) for i, (v, _) in enumerate(CASES)]
    q = c.send('QUERY ev')
    stored = {}
    for line in q.splitlines():
        try:
            j = json.loads(line)
        except ValueError:
            continue
        if j.get("type") == "batch":
            for row in j["rows"]:
                stored[row[0]] = row[4]
    print_history(srv)
    checks = []
    for i, (v, want) in enumerate(CASES):
        got, st = stored.get("k%d" % i), status_of(resp[i])
        first = resp[i].strip().splitlines()[0] if resp[i].strip() else "<none>"
        if want is None:
            checks.append((f'"at":{v} is refused', f"{first!r}, stored={got}", "non-200, nothing stored", st != "200" and got is None))
        else:
            checks.append((f'"at":{v} keeps its value', f"{first!r}, stored={got}", f"200, stored={want}", st == "200" and got == want))
    sat = [k for k, x in stored.items() if x in (I64MAX, I64MIN)]
    checks.append(("no stored value is a saturated i64", f"saturated rows: {sat}", "none", not sat))
    rc = verdict(checks)
finally:
    srv.cleanup()
sys.exit(rc)
