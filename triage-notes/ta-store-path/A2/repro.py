#!/usr/bin/env python3
"""A2: FLUSH never answers when the datetime values of one event type are far apart.

Scenario 1 (as reported): order events with "at" = 2025-01-01 and "at" = 1e300, then FLUSH.
Scenario 2 (only valid integer epochs): "at" = 0, 50000000000, 99999999999 (3169 years), then FLUSH,
            then the flushed events must still be found through the temporal index.

Correct (exit 0): FLUSH is answered within 10 s in both scenarios, the connection keeps answering,
                  other connections can QUERY, and the flushed rows are found by "at" lookups.
Violated (exit 1): otherwise.
(On an unfixed binary the server is killed after the 10 s wait; it allocates ~150 MB/s meanwhile.)

usage: SNEL_BIN=<server binary> ./repro.py        (default: unmodified-tree binary)
"""
import json, sys
sys.path.insert(0, "/var/tmp/ta/out/common")
from harness import Server, print_history, status_of, verdict

LIMIT = 10.0


def rows(resp):
    out = []
    for line in resp.splitlines():
        try:
            j = json.loads(line)
        except ValueError:
            continue
        if j.get("type") == "batch":
            out += j["rows"]
    return out


def hwm(srv):
    try:
        for l in open(f"/proc/{srv.proc.pid}/status"):
            if l.startswith("VmHWM"):
                return int(l.split()[1]) // 1024
    except OSError:
        pass
    return -1


checks = []

# ---- scenario 1 -------------------------------------------------------------------------------
srv = Server().start()
try:
    c = srv.conn()
    c.send('DEFINE order FIELDS { "name": "string", "note": "string | null", "qty": "int", "at": "datetime", "st": ["a","b"] }')
    c.send('STORE order FOR c1 PAYLOAD {"name":"x","qty":1,"at":"2025-01-01T00:00:00Z","st":"a"}')
    st = c.send('STORE order FOR c1 PAYLOAD {"name":"x","qty":1,"at":1e300,"st":"a"}')
    f = c.send('FLUSH', first=LIMIT)
    p = c.send('PING', first=3)
    c2 = srv.conn()
    p2 = c2.send('PING', first=3, show='[conn 2] PING')
    s2 = c2.send('STORE order FOR c2 PAYLOAD {"name":"y","qty":2,"at":"2025-01-02T00:00:00Z","st":"b"}', first=3, show='[conn 2] STORE order FOR c2 ...')
    q2 = c2.send('QUERY order WHERE qty = 1', first=5, show='[conn 2] QUERY order WHERE qty = 1')
    srv.history.append(("#", f"server peak RSS {hwm(srv)} MB"))
    print("==== scenario 1: at = 2025-01-01 and at = 1e300 ====")
    print_history(srv)
    first = lambda r: r.strip().splitlines()[0] if r.strip() else "<no response>"
    checks += [
        ("S1 FLUSH answers within %.0f s (STORE of 1e300 was answered %r)" % (LIMIT, first(st)), first(f), "a response (200)", bool(f.strip())),
        ("S1 same connection answers PING after FLUSH", first(p), "200 OK", status_of(p) == "200"),
        ("S1 another connection: PING / STORE", f"{first(p2)} / {first(s2)}", "200 OK / 200 OK", status_of(p2) == "200" and status_of(s2) == "200"),
        ("S1 another connection: QUERY order answers and returns the 2025-01-01 row", f"{len(rows(q2))} rows" if q2.strip() else "<no response>", ">= 1 row", len(rows(q2)) >= 1),
    ]
finally:
    srv.cleanup()

# ---- scenario 2 -------------------------------------------------------------------------------
srv = Server().start()
try:
    c = srv.conn()
    c.send('DEFINE ev FIELDS { "at": "datetime", "n": "int" }')
    for n, at in enumerate([0, 50000000000, 99999999999]):
        c.send('STORE ev FOR c1 PAYLOAD {"at":%d,"n":%d}' % (at, n))
    f = c.send('FLUSH', first=LIMIT, idle=0.5)
    got = {}
    if f.strip():
        for label, where in [("eq_lo", "at = 0"), ("eq_mid", "at = 50000000000"), ("eq_hi", "at = 99999999999"),
                             ("ge_mid", "at >= 50000000000"), ("lt_mid", "at < 50000000000"), ("gt_hi", "at > 99999999999"),
                             ("eq_none", "at = 1735689600")]:
            got[label] = sorted(r[-1] for r in rows(c.send('QUERY ev WHERE ' + where, first=5)))
    srv.history.append(("#", f"server peak RSS {hwm(srv)} MB"))
    print("==== scenario 2: at = 0, 50000000000, 99999999999 (valid integer epoch seconds) ====")
    print_history(srv)
    checks.append(("S2 FLUSH answers within %.0f s" % LIMIT, first(f), "a response (200)", status_of(f) == "200"))
    want = {"eq_lo": [0], "eq_mid": [1], "eq_hi": [2], "ge_mid": [1, 2], "lt_mid": [0], "gt_hi": [], "eq_none": []}
    checks.append(("S2 flushed rows are found by their 'at' value (column n of the rows returned)", got if got else "<not run: FLUSH did not answer>", want, got == want))
finally:
    srv.cleanup()

sys.exit(verdict(checks))
