#!/usr/bin/env python3
"""A3: a conforming STORE payload is refused at parse time when a JSON string contains a brace.

DEFINE order FIELDS { "name": "string", "note": "string | null", "qty": "int", "at": "datetime", "st": ["a","b"] }
STORE order FOR k<i> PAYLOAD {"name":"<text with braces>","qty":1,"at":"2025-01-01T00:00:00Z","st":"a"}

Correct (exit 0): every conforming payload is stored (and read back unchanged), malformed input is
still refused quickly (unbalanced '{' / '"', trailing text, nesting deeper than 64 levels), and the
server survives 100000 levels of nesting hidden from the raw brace counter ({"}":{"}":...).
Violated (exit 1): otherwise.

usage: SNEL_BIN=<server binary> ./repro.py        (default: unmodified-tree binary)
"""
import json, sys, time
sys.path.insert(0, "/var/tmp/ta/out/common")
from harness import Server, print_history, status_of, verdict

TAIL = ',"qty":1,"at":"2025-01-01T00:00:00Z","st":"a"}'
# conforming payloads: JSON text of "name"  ->  value expected back
GOOD = [('"}"', "}"), ('"{"', "{"), ('"}{"', "}{"), ('"a\\"}"', 'a"}'), ('"\\\\}"', "\\}"), ('"a\\\\"', "a\\"),
        ('"}}}} {{"', "}}}} {{"), ('"plain"', "plain"), ('"\\u007d"', "}")]
# malformed: (label, full command, must answer within seconds)
BAD = [
    ("missing closing brace", 'STORE order FOR c1 PAYLOAD {"name":"x"' + TAIL[:-1], 2),
    ("unterminated string", 'STORE order FOR c1 PAYLOAD {"name":"x,"qty":1}', 2),
    ("trailing text", 'STORE order FOR c1 PAYLOAD {"name":"x"' + TAIL + ' trailing', 2),
    ("two glued STOREs", 'STORE order FOR c1 PAYLOAD {"name":"x"' + TAIL + ' STORE order FOR c1 PAYLOAD {"name":"x"' + TAIL, 2),
    ("28 unbalanced '{'", 'STORE order FOR c1 PAYLOAD ' + '{' * 28, 2),
    ("60 unbalanced '{\"a\":'", 'STORE order FOR c1 PAYLOAD ' + '{"a":' * 60 + '1', 2),
    ("40 unbalanced '{' then 20001 '\"'", 'STORE order FOR c1 PAYLOAD ' + '{' * 40 + '"' * 20001, 2),
    ("unterminated string of 20000 escaped quotes", 'STORE order FOR c1 PAYLOAD {"name":"' + '\\"' * 20000, 2),
    ("65 nested objects", 'STORE order FOR c1 PAYLOAD ' + '{"a":' * 65 + '1' + '}' * 65, 2),
    ("65 nested objects whose keys are \"}\" (raw brace depth stays 1)", 'STORE order FOR c1 PAYLOAD ' + '{"}":' * 65 + '1' + '}' * 65, 2),
]

srv = Server().start()
try:
    c = srv.conn()
    c.send('DEFINE order FIELDS { "name": "string", "note": "string | null", "qty": "int", "at": "datetime", "st": ["a","b"] }')
    good = [c.send('STORE order FOR k%d PAYLOAD {"name":%s%s' % (i, txt, TAIL)) for i, (txt, _) in enumerate(GOOD)]
    # 64 levels are allowed, also when the keys contain braces
    deep_ok = c.send('STORE order FOR deep PAYLOAD {"name":"deep","qty":1,"at":"2025-01-01T00:00:00Z","st":"a","x":' + '{"}":' * 63 + '1' + '}' * 63 + '}')
    bad = []
    for label, cmd, limit in BAD:
        t0 = time.time()
        r = c.send(cmd, first=10)
        bad.append((label, r, time.time() - t0 - (0.3 if r else 0), limit))
    # recursion guard: nesting that the raw brace counter cannot see
    huge = c.send('STORE order FOR c1 PAYLOAD ' + '{"}":' * 100000 + '1' + '}' * 100000, first=10)
    time.sleep(0.5)
    alive = srv.alive()
    if alive:
        c = srv.conn()
        q = c.send('QUERY order')
    else:
        q = ""
    names = {}
    for line in q.splitlines():
        try:
            j = json.loads(line)
        except ValueError:
            continue
        if j.get("type") == "schema":
            col = [x["name"] for x in j["columns"]].index("name")
        if j.get("type") == "batch":
            for row in j["rows"]:
                names[row[0]] = row[col]
    print_history(srv)
    first = lambda r: (r.strip().splitlines()[0][:110] if r.strip() else "<no response>")
    checks = []
    for i, (txt, want) in enumerate(GOOD):
        checks.append((f'conforming payload "name":{txt} is stored and read back', f"{first(good[i])!r}, read back {names.get('k%d' % i)!r}", f"200, read back {want!r}", status_of(good[i]) == "200" and names.get("k%d" % i) == want))
    checks.append(("64 levels of nesting with \"}\" keys are accepted by the parser", first(deep_ok), "not a parse error (200, or 400 from schema validation)", status_of(deep_ok) in ("200", "400")))
    for label, r, dt, limit in bad:
        checks.append((f"malformed input is refused quickly: {label}", f"{first(r)!r} after {dt:.2f}s", f"an error within {limit}s", bool(r.strip()) and status_of(r) != "200" and dt < limit))
    checks.append(("100000 nested objects with \"}\" keys: refused, server still running", f"{first(huge)!r}, server alive={alive}", "an error, server alive=True", alive and bool(huge.strip()) and status_of(huge) != "200"))
    rc = verdict(checks)
finally:
    srv.cleanup()
sys.exit(rc)
