#!/usr/bin/env python3
"""A4: a DEFINE whose encoded schema record exceeds MAX_RECORD_LEN_BYTES (10 KiB) is accepted,
but after a restart it and every schema defined after it are gone.

Correct behaviour (exit 0): every DEFINE that was answered 200 is still there after a restart
(or the oversized DEFINE is refused up front and the later ones survive).
Violated (exit 1): a DEFINE answered 200 and the type is unknown after the restart.

usage: SNEL_BIN=<server binary> ./repro.py        (default: unmodified-tree binary)
"""
import sys
sys.path.insert(0, "/var/tmp/ta/out/common")
from harness import Server, print_history, status_of, verdict

NFIELDS = 300
big_fields = ", ".join('"field_number_%04d_padding_padding": "string | null"' % i for i in range(NFIELDS))

srv = Server().start()
try:
    c = srv.conn()
    r_before = c.send('DEFINE before FIELDS { "a": "int" }')
    r_big = c.send('DEFINE big FIELDS { %s }' % big_fields, show='DEFINE big FIELDS { <%d "string | null" fields, 33-char names> }' % NFIELDS)
    r_after = c.send('DEFINE after FIELDS { "a": "int" }')
    c.send('STORE before FOR c1 PAYLOAD {"a":1}')
    s_big0 = c.send('STORE big FOR c1 PAYLOAD {"field_number_0000_padding_padding":"x"}')
    s_after0 = c.send('STORE after FOR c1 PAYLOAD {"a":1}')
    c.close()
    try:
        import os
        size = os.path.getsize(srv.dir + "/schema/schemas.bin")
    except OSError:
        size = -1
    srv.history.append(("#", f"schemas.bin is {size} bytes"))
    srv.stop()
    srv.start()  # same data directory
    c = srv.conn()
    s_before1 = c.send('STORE before FOR c1 PAYLOAD {"a":2}')
    s_big1 = c.send('STORE big FOR c1 PAYLOAD {"field_number_0000_padding_padding":"y"}')
    s_after1 = c.send('STORE after FOR c1 PAYLOAD {"a":2}')
    c.close()
    print_history(srv)

    ok = lambda r: status_of(r) == "200"
    checks = [
        ("schema 'before' survives the restart", status_of(s_before1), "200", ok(s_before1)),
        ("DEFINE big (record > 10 KiB): either refused, or still defined after the restart",
         f"DEFINE -> {r_big.strip().splitlines()[0]!r}; STORE big after restart -> {s_big1.strip().splitlines()[0]!r}",
         "DEFINE refused with an error, or STORE big after restart -> 200",
         (not ok(r_big)) or ok(s_big1)),
        ("schema 'after' (defined after big, DEFINE answered %s) survives the restart" % status_of(r_after),
         s_after1.strip().splitlines()[0], "200 OK", ok(r_after) and ok(s_after1)),
    ]
    rc = verdict(checks)
finally:
    srv.cleanup()
sys.exit(rc)
