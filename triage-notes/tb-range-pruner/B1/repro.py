#!/usr/bin/env python3
# B1: float column; integral floats go to the i64 lane, fractional ones to the f64 lane of the SuRF;
#     a float literal is encoded in the f64 lane -> zones holding only integral floats are ruled out.
import sys, os
sys.path.insert(0, os.path.join(os.path.dirname(os.path.abspath(__file__)), ".."))
from common import run_case
sys.exit(run_case("B1", '{ "x": "float" }',
    ['{"x":1.5}', '{"x":1.25}', '{"x":2.0}', '{"x":3.0}'],
    [("x > 1.7", lambda p: p["x"] > 1.7)]))
