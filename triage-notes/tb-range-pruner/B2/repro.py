#!/usr/bin/env python3
# B2: float column; int literal is encoded in the i64 lane -> zones holding only fractional floats are ruled out.
import sys, os
sys.path.insert(0, os.path.join(os.path.dirname(os.path.abspath(__file__)), ".."))
from common import run_case
sys.exit(run_case("B2", '{ "x": "float" }',
    ['{"x":1.5}', '{"x":1.25}', '{"x":2.0}', '{"x":3.0}'],
    [("x < 2", lambda p: p["x"] < 2)]))
