#!/usr/bin/env python3
# B3: int column; float literal is encoded in the f64 lane, all stored keys are in the i64 lane.
import sys, os
sys.path.insert(0, os.path.join(os.path.dirname(os.path.abspath(__file__)), ".."))
from common import run_case
sys.exit(run_case("B3", '{ "x": "int" }',
    ['{"x":-5}', '{"x":-1}', '{"x":3}', '{"x":7}'],
    [("x < -0.5", lambda p: p["x"] < -0.5), ("x > 2.5", lambda p: p["x"] > 2.5)]))
