#!/usr/bin/env python3
# B4: u64 column with values above i64::MAX (raw u64 lane) probed with an int literal (sign-flipped i64 lane).
import sys, os
sys.path.insert(0, os.path.join(os.path.dirname(os.path.abspath(__file__)), ".."))
from common import run_case
sys.exit(run_case("B4", '{ "x": "u64" }',
    ['{"x":9223372036854775818}', '{"x":9223372036854775900}'],
    [("x > 100", lambda p: int(p["x"]) > 100)]))
