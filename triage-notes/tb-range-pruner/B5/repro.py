#!/usr/bin/env python3
# B5: optional field absent from the FIRST event of a zone -> zone missing from the SuRF -> ruled out.
import sys, os
sys.path.insert(0, os.path.join(os.path.dirname(os.path.abspath(__file__)), ".."))
from common import run_case
sys.exit(run_case("B5", '{ "x": "int | null", "y": "int | null" }',
    ['{"x":1}', '{"x":2}', '{"y":1}', '{"x":50}'],
    [("x > 10", lambda p: p.get("x") is not None and p["x"] > 10)]))
