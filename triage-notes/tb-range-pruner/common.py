"""Shared harness for the B1..B5 repro scripts.

Starts a private sneldb server (binary: $SNEL_BIN or /var/tmp/tb/target/debug/snel_db)
in a fresh scratch directory, runs commands over TCP, and compares
`QUERY ev WHERE <pred>` after FLUSH against a full scan (`QUERY ev`) filtered in Python.

Exit codes of a repro: 0 = rows match the full scan, 1 = rows missing,
2 = no row missing but extra rows returned (a different defect: row filter, not pruning).
"""
import json, os, shutil, signal, socket, subprocess, sys, time

BIN = os.environ.get("SNEL_BIN", "/var/tmp/tb/target/debug/snel_db")
ROOT = os.environ.get("SNEL_SCRATCH", "/var/tmp/tb/triage")

CFG = '''
[wal]
enabled = true
fsync = false
buffered = false
buffer_size = "1KB"
dir = "{d}/wal/"
flush_each_write = true
fsync_every_n = 1
conservative_mode = false
archive_dir = "{d}/wal/archived/"
compression_level = 3
compression_algorithm = "zstd"
[engine]
fill_factor = {ff}
data_dir = "{d}/cols"
index_dir = "{d}/index/"
shard_count = 1
event_per_zone = {epz}
compaction_interval = 3000
sys_io_threshold = 100000
sys_memory_threshold_mb = "1MB"
max_inflight_passives = 8
segments_per_merge = 2
compaction_max_shard_concurrency = 1
[schema]
def_dir="{d}/schema/"
[server]
socket_path = "{d}/sock"
log_level = "error"
output_format = "json"
tcp_addr = "127.0.0.1:{port}"
http_addr = "127.0.0.1:{p1}"
ws_addr = "127.0.0.1:{p2}"
auth_token = "t"
[playground]
enabled = false
allow_unauthenticated = true
[auth]
bypass_auth = true
rate_limit_enabled = false
[logging]
log_dir = "{d}/logs"
stdout_level = "error"
file_level = "error"
[query]
zone_index_cache_max_entries = 256
column_block_cache_max_bytes = "64MB"
zone_surf_cache_max_bytes = "10MB"
[time]
timezone = "UTC"
week_start = "Mon"
use_calendar_bucketing = true
'''


def _free_ports():
    socks, ports = [], []
    for _ in range(3):
        s = socket.socket()
        s.bind(("127.0.0.1", 0))
        socks.append(s)
        ports.append(s.getsockname()[1])
    for s in socks:
        s.close()
    return ports


class Server:
    def __init__(self, name, epz=2, ff=50):
        self.d = os.path.join(ROOT, name)
        shutil.rmtree(self.d, ignore_errors=True)
        os.makedirs(self.d)
        self.port, p1, p2 = _free_ports()
        with open(os.path.join(self.d, "cfg.toml"), "w") as f:
            f.write(CFG.format(d=self.d, ff=ff, epz=epz, port=self.port, p1=p1, p2=p2))
        env = dict(os.environ, SNELDB_CONFIG=os.path.join(self.d, "cfg.toml"),
                   SNELDB_PRESERVE_DATA="1", RUST_LOG="error")
        self.log = open(os.path.join(self.d, "server.log"), "w")
        self.proc = subprocess.Popen([BIN], cwd=self.d, env=env, stdout=self.log, stderr=self.log)
        for _ in range(100):
            try:
                socket.create_connection(("127.0.0.1", self.port), timeout=0.2).close()
                break
            except OSError:
                time.sleep(0.1)
        self.history = []

    def cmd(self, c, wait=0.5):
        s = socket.create_connection(("127.0.0.1", self.port), timeout=5)
        s.settimeout(wait)
        s.sendall((c + "\n").encode())
        buf = b""
        while True:
            try:
                d = s.recv(65536)
                if not d:
                    break
                buf += d
                if b'"type":"end"' in buf:
                    break
            except socket.timeout:
                break
        s.close()
        r = buf.decode(errors="replace")
        self.history.append((c, r))
        return r

    def query(self, q):
        """returns list of dict rows"""
        r = self.cmd(q, wait=1.0)
        cols, rows = None, []
        for line in r.splitlines():
            line = line.strip()
            if not line.startswith("{"):
                continue
            o = json.loads(line)
            if o.get("type") == "schema":
                cols = [c["name"] for c in o["columns"]]
            elif o.get("type") == "batch":
                for row in o["rows"]:
                    rows.append(dict(zip(cols, row)))
        self.history[-1] = (q, "%d rows: %s" % (len(rows), [payload(r) for r in rows]))
        return rows

    def stop(self):
        try:
            self.proc.send_signal(signal.SIGTERM)   # only the pid we started
            self.proc.wait(timeout=5)
        except Exception:
            self.proc.kill()
        self.log.close()


CORE = ("context_id", "event_type", "timestamp", "event_id")


def payload(row):
    return {k: v for k, v in row.items() if k not in CORE}


def run_case(name, schema, events, checks, epz=2, ff=50):
    """events: list of JSON payload strings; checks: list of (where_text, python_predicate(payload_dict))"""
    srv = Server(name, epz=epz, ff=ff)
    rc = 0
    try:
        srv.cmd("DEFINE ev FIELDS " + schema)
        for e in events:
            r = srv.cmd("STORE ev FOR c1 PAYLOAD " + e, wait=0.3)
            if "200" not in r:
                print("STORE rejected:", e, r)
        pre = {w: srv.query("QUERY ev WHERE " + w) for w, _ in checks}
        srv.cmd("FLUSH", wait=0.5)
        time.sleep(1.0)
        segs = sorted(x for x in os.listdir(os.path.join(srv.d, "cols", "shard-0")) if x.isdigit())
        files = sorted(os.listdir(os.path.join(srv.d, "cols", "shard-0", segs[0]))) if segs else []
        full = srv.query("QUERY ev")
        print("== history")
        for c, r in srv.history:
            print(">>", c, "\n  ", r.strip().replace("\n", " | ")[:400])
        print("== segments:", segs, " .zsrf files:", [f for f in files if f.endswith(".zsrf")])
        for w, pred in checks:
            got = srv.query("QUERY ev WHERE " + w)
            key = lambda r: r["event_id"]
            exp_ids = {key(r) for r in full if pred(payload(r))}
            got_ids = {key(r) for r in got}
            missing = [payload(r) for r in full if key(r) in exp_ids - got_ids]
            extra = [payload(r) for r in got if key(r) not in exp_ids]
            pre_ids = {key(r) for r in pre[w]}
            print("== QUERY ev WHERE %s (after FLUSH)" % w)
            print("   expected (full scan filtered in script):", [payload(r) for r in full if key(r) in exp_ids])
            print("   observed after FLUSH                   :", [payload(r) for r in got])
            print("   same query before FLUSH (memtable)     :", [payload(r) for r in pre[w]],
                  "" if pre_ids == exp_ids else "  <- memtable answer also differs from the full scan")
            if missing:
                print("   MISSING:", missing)
                rc = 1
            if extra:
                print("   EXTRA  :", extra)
                if rc == 0:
                    rc = 2
            if not missing and not extra:
                print("   OK")
    finally:
        srv.stop()
    print("exit", rc)
    return rc
