#!/usr/bin/env python3
"""C1: LIMIT on an aggregate truncates input events (per shard / per source) instead of groups.
exit 0 = every aggregate equals the fold over the selection's rows; 1 = some differ."""
import sys
sys.path.insert(0, "/var/tmp/tc/out")
from tclib import run_histories

DEFINE = 'DEFINE orders FIELDS {"amount":"int","country":"string","plan":"string"}'
EVENTS = [("c1", 10, "NL"), ("c2", 20, "NL"), ("c3", 30, "NL"), ("c4", 40, "DE"), ("c5", 50, "DE")]
STORES = ['STORE orders FOR %s PAYLOAD {"amount":%d,"country":"%s","plan":"pro"}' % e for e in EVENTS]


def count_all(rows):
    return [[len(rows)]]


def count_total_by_country(limit):
    def f(rows):
        g = {}
        for r in rows:
            c, t = g.get(r["country"], (0, 0))
            g[r["country"]] = (c + 1, t + r["amount"])
        out = [[k, c, t] for k, (c, t) in g.items()]
        out.sort()                      # coordinator sorts by group key when there is no ORDER BY
        return out[:limit]              # LIMIT bounds groups, never the events inside them
    return f


# LIMIT applies to the result rows (groups) of the aggregate, so the selection to fold over
# is the unlimited one.
CHECKS = [
    ("QUERY orders COUNT LIMIT 2", "QUERY orders", count_all),
    ("QUERY orders COUNT LIMIT 1", "QUERY orders", count_all),
    ("QUERY orders COUNT, TOTAL amount BY country LIMIT 2", "QUERY orders", count_total_by_country(2)),
    ("QUERY orders COUNT, TOTAL amount BY country LIMIT 1", "QUERY orders", count_total_by_country(1)),
    ("QUERY orders COUNT", "QUERY orders", count_all),   # control
]

if __name__ == "__main__":
    bad = run_histories("C1", DEFINE, STORES, CHECKS)
    sys.exit(1 if bad else 0)
