#!/usr/bin/env python3
"""C2: events whose BY value is null belong to no group (group counts do not add up to COUNT).
exit 0 = every aggregate equals the fold over the selection's rows; 1 = some differ."""
import sys
sys.path.insert(0, "/var/tmp/tc/out")
from tclib import run_histories

DEFINE = 'DEFINE orders FIELDS {"amount":"int | null","country":"string | null","plan":"string"}'
EVENTS = [("c1", "10", '"NL"', "pro"), ("c2", "20", '"NL"', "pro"), ("c3", "30", "null", "pro"),
          ("c4", "40", '"NL"', "free"), ("c5", "null", '"DE"', "free"), ("c6", "60", "null", "free")]
STORES = ['STORE orders FOR %s PAYLOAD {"amount":%s,"country":%s,"plan":"%s"}' % e for e in EVENTS]


def by(field):
    def f(rows):
        g = {}
        for r in rows:
            k = r[field]                       # a null value forms its own group
            if k in (None, ""):                # (selection renders a null string as null in memory
                k = None                       #  but as "" once flushed - separate issue, not judged here)
            c, t = g.get(k, (0, 0))
            g[k] = (c + 1, t + (r["amount"] or 0))
        return [[k, c, t] for k, (c, t) in g.items()]
    return f


def count_all(rows):
    return [[len(rows)]]


CHECKS = [
    ("QUERY orders COUNT, TOTAL amount BY country", "QUERY orders", by("country")),
    ("QUERY orders COUNT, TOTAL amount BY amount", "QUERY orders", by("amount")),
    ("QUERY orders COUNT, TOTAL amount BY plan", "QUERY orders", by("plan")),   # control: no nulls
    ("QUERY orders COUNT", "QUERY orders", count_all),                           # control
]

if __name__ == "__main__":
    import tclib
    # Rendering of the group key is not judged: a null key may come back as null or "", and
    # keys of an int BY field come back as strings ("10"); compare keys as strings.
    _norm = tclib.norm
    def norm(rows):
        def key(v):
            return "<null>" if v in (None, "") else str(v)
        return _norm([[(key(v) if (i == 0 and len(r) == 3) else v) for i, v in enumerate(r)] for r in rows])
    tclib.norm = norm
    bad = run_histories("C2", DEFINE, STORES, CHECKS)
    sys.exit(1 if bad else 0)
