#!/usr/bin/env python3
"""C3: COUNT UNIQUE on an int field returns 1 whatever the values are.
exit 0 = every aggregate equals the fold over the selection's rows; 1 = some differ.

Two histories:
  nulls    : amounts 10, null, 15, 18, 15   (the observed history, plus a duplicate)
  no-nulls : amounts 10, 15, 18, 15, 10     (isolates the int defect from the null handling)
`repro.py no-nulls` / `repro.py nulls` runs just one of them; default runs both.
"""
import sys
sys.path.insert(0, "/var/tmp/tc/out")
from tclib import run_histories

DEFINE = 'DEFINE orders FIELDS {"amount":"int | null","country":"string | null","plan":"string"}'


def stores(amounts):
    out = []
    for i, a in enumerate(amounts):
        out.append('STORE orders FOR c%d PAYLOAD {"amount":%s,"country":"%s","plan":"%s"}'
                   % (i + 1, "null" if a is None else a, "NL" if i % 2 == 0 else "DE", "pro"))
    return out


def uniq(field):
    def f(rows):
        return [[len({r[field] for r in rows if r[field] is not None})]]
    return f


def uniq_by(field, by):
    def f(rows):
        g = {}
        for r in rows:
            g.setdefault(r[by], set())
            if r[field] is not None:
                g[r[by]].add(r[field])
        return [[k, len(v)] for k, v in g.items()]
    return f


CHECKS = [
    ("QUERY orders COUNT UNIQUE amount", "QUERY orders", uniq("amount")),
    ("QUERY orders COUNT UNIQUE amount BY country", "QUERY orders", uniq_by("amount", "country")),
    ("QUERY orders COUNT UNIQUE country", "QUERY orders", uniq("country")),     # control: string field
]

HIST = {
    "nulls": [10, None, 15, 18, 15],
    "no-nulls": [10, 15, 18, 15, 10],
}

if __name__ == "__main__":
    which = sys.argv[1:] or ["nulls", "no-nulls"]
    bad = 0
    for h in which:
        bad += run_histories("C3/" + h, DEFINE, stores(HIST[h]), CHECKS)
    sys.exit(1 if bad else 0)
