"""Shared helpers for the C1..C3 repro scripts (scratch only: /var/tmp/tc).

Starts a fresh snel_db per history (TCP, calendar bucketing, UTC), sends commands,
parses the streamed JSON result, and folds selection rows in Python.
Only the pids started here are killed.
"""
import json, os, shutil, signal, socket, subprocess, sys, time

ROOT = "/var/tmp/tc"
BIN = os.environ.get("SNEL_BIN", f"{ROOT}/target/debug/snel_db")
RUN = f"{ROOT}/run"

CFG = '''
[wal]
enabled = true
fsync = false
buffered = false
buffer_size = "1KB"
dir = "{d}/wal/"
flush_each_write = true
fsync_every_n = 1
conservative_mode = false
archive_dir = "{d}/wal/archived/"
compression_level = 3
compression_algorithm = "zstd"
[engine]
fill_factor = {ff}
data_dir = "{d}/cols"
index_dir = "{d}/index/"
shard_count = {shards}
event_per_zone = {epz}
compaction_interval = 3000
sys_io_threshold = 100000
sys_memory_threshold_mb = "1MB"
max_inflight_passives = 8
segments_per_merge = 2
compaction_max_shard_concurrency = 1
[schema]
def_dir="{d}/schema/"
[server]
socket_path = "{d}/sock"
log_level = "error"
output_format = "json"
tcp_addr = "127.0.0.1:{port}"
http_addr = "127.0.0.1:{http}"
ws_addr = "127.0.0.1:{ws}"
auth_token = "t"
[playground]
enabled = false
allow_unauthenticated = true
[auth]
bypass_auth = true
rate_limit_enabled = false
[logging]
log_dir = "{d}/logs"
stdout_level = "error"
file_level = "error"
[query]
zone_index_cache_max_entries = 256
column_block_cache_max_bytes = "64MB"
zone_surf_cache_max_bytes = "10MB"
[time]
timezone = "UTC"
week_start = "Mon"
use_calendar_bucketing = true
'''


def _free_port():
    # three consecutive free ports in a private range
    for base in range(21000 + (os.getpid() % 500) * 6, 29000, 3):
        ok = True
        for p in (base, base + 1, base + 2):
            s = socket.socket()
            try:
                s.bind(("127.0.0.1", p))
            except OSError:
                ok = False
            finally:
                s.close()
        if ok:
            return base
    raise RuntimeError("no free port")


class Server:
    def __init__(self, name, shards, ff=2, epz=1):
        self.d = f"{RUN}/{name}"
        shutil.rmtree(self.d, ignore_errors=True)
        os.makedirs(self.d)
        self.port = _free_port()
        with open(f"{self.d}/cfg.toml", "w") as f:
            f.write(CFG.format(d=self.d, ff=ff, epz=epz, shards=shards,
                               port=self.port, http=self.port + 1, ws=self.port + 2))
        env = dict(os.environ, SNELDB_CONFIG=f"{self.d}/cfg.toml",
                   SNELDB_PRESERVE_DATA="1", RUST_LOG="error")
        self.log = open(f"{self.d}/server.log", "w")
        self.proc = subprocess.Popen([BIN], cwd=self.d, env=env,
                                     stdout=self.log, stderr=subprocess.STDOUT)
        t0 = time.time()
        while time.time() - t0 < 15:
            try:
                socket.create_connection(("127.0.0.1", self.port), timeout=0.3).close()
                break
            except OSError:
                if self.proc.poll() is not None:
                    raise RuntimeError("server died, see " + self.d + "/server.log")
                time.sleep(0.1)
        else:
            raise RuntimeError("server did not come up")
        self.sock = socket.create_connection(("127.0.0.1", self.port), timeout=5)

    def cmd(self, c, idle=0.35):
        """Send one command; return raw text."""
        self.sock.sendall((c + "\n").encode())
        self.sock.settimeout(idle)
        buf = b""
        is_query = c.startswith("QUERY")
        deadline = time.time() + 10
        while time.time() < deadline:
            try:
                d = self.sock.recv(65536)
                if not d:
                    break
                buf += d
                if is_query and (b'"type":"end"' in buf) and buf.endswith(b"\n"):
                    break
                if not is_query and buf.endswith(b"\n"):
                    # status + message line
                    if buf.count(b"\n") >= 2:
                        break
            except socket.timeout:
                if buf:
                    break
        return buf.decode(errors="replace")

    def query(self, c):
        """Returns (column names, rows). Raises on a non-stream answer."""
        raw = self.cmd(c)
        cols, rows = None, []
        for line in raw.splitlines():
            line = line.strip()
            if not line.startswith("{"):
                continue
            o = json.loads(line)
            if o.get("type") == "schema":
                cols = [x["name"] for x in o["columns"]]
            elif o.get("type") == "batch":
                rows.extend(o["rows"])
        if cols is None:
            # e.g. "no matching events" style answers
            return [], [], raw
        return cols, rows, raw

    def stop(self):
        try:
            self.sock.close()
        except Exception:
            pass
        if self.proc.poll() is None:
            self.proc.send_signal(signal.SIGTERM)  # only the pid we started
            try:
                self.proc.wait(timeout=5)
            except subprocess.TimeoutExpired:
                self.proc.kill()
                self.proc.wait()
        self.log.close()
        shutil.rmtree(self.d, ignore_errors=True)


def dicts(cols, rows):
    return [dict(zip(cols, r)) for r in rows]


def norm(rows):
    """Order-insensitive, float-tolerant canonical form of result rows."""
    def cell(v):
        if isinstance(v, float):
            return round(v, 6)
        if isinstance(v, int) and not isinstance(v, bool):
            return round(float(v), 6)
        return v
    return sorted(([cell(v) for v in r] for r in rows), key=lambda r: json.dumps(r, sort_keys=True))


def run_histories(item, define, stores, checks, configs=None):
    """checks: list of (aggregate query, selection query, fold(list of dict rows) -> expected rows).
    Runs every config with a fresh server; phases: 'memory' (after the STOREs) and 'flushed'.
    Returns number of differing observations."""
    if configs is None:
        # (shards, fill_factor, event_per_zone); capacity = ff*epz events per memtable.
        # ff=2 is the observed config (memtables rotate every 2 events, so 'memory' is
        # really active+passive+auto-flushed segments); ff=1000 keeps everything in the
        # active memtable until the explicit FLUSH.
        configs = [(1, 2, 1), (2, 2, 1), (1, 1000, 1), (2, 1000, 1)]
    bad = 0
    print(f"== {item} ==")
    print("history (each config starts from a fresh server):")
    print("  " + define)
    for s in stores:
        print("  " + s)
    print("  <checks: memory>   FLUSH   <checks: flushed>")
    for (shards, ff, epz) in configs:
        srv = Server(f"{item}-s{shards}-ff{ff}", shards, ff, epz)
        try:
            r = srv.cmd(define)
            assert r.startswith("200"), r
            for s in stores:
                r = srv.cmd(s)
                assert r.startswith("200"), (s, r)
            time.sleep(1.2)  # let automatic flushes settle (known: COUNT doubles during a flush)
            for phase in ("memory", "flushed"):
                if phase == "flushed":
                    r = srv.cmd("FLUSH")
                    assert r.startswith("200"), r
                    time.sleep(1.2)
                for (agg_q, sel_q, fold) in checks:
                    scols, srows, sraw = srv.query(sel_q)
                    expected = fold(dicts(scols, srows))
                    acols, arows, araw = srv.query(agg_q)
                    ok = norm(arows) == norm(expected)
                    tag = "ok  " if ok else "DIFF"
                    if not ok:
                        bad += 1
                    print(f"[{tag}] shards={shards} ff={ff} {phase:7s} {agg_q}")
                    print(f"         observed {acols} {sorted(arows, key=str)}")
                    print(f"         expected (fold over {len(srows)} rows of `{sel_q}`) {sorted(expected, key=str)}")
        finally:
            srv.stop()
    print(f"== {item}: {bad} differing observation(s) ==")
    return bad
