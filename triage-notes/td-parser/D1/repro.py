#!/usr/bin/env python3
"""D1: identifiers that start with a keyword (not_x, by_region, for_x, ...) are split at the keyword."""
import os, sys
sys.path.insert(0, os.path.join(os.path.dirname(os.path.abspath(__file__)), "..", "common"))
from tdlib import run, has, is_err

NOT = "Not("
cases = [
    # QUERY grammar (src/command/parser/commands/query.rs)
    ("QUERY e WHERE not_x = 1", 'Compare{field:"not_x"} without Not', lambda r: 'field: "not_x"' in r and NOT not in r),
    ("QUERY e WHERE x = 1 AND not_deleted", 'And(x=1, not_deleted=true) without Not', lambda r: 'field: "not_deleted"' in r and NOT not in r),
    ("QUERY e COUNT by_region", 'aggs=[CountField{by_region}], no group_by', has('CountField { field: "by_region" }', "group_by: None")),
    ("QUERY e COUNT unique_x", 'aggs=[CountField{unique_x}]', has('CountField { field: "unique_x" }')),
    ("QUERY e COUNT limit10", 'aggs=[CountField{limit10}], limit None', has('CountField { field: "limit10" }', "limit: None")),
    ("QUERY e COUNT by-region", 'aggs=[CountField{by-region}] (`-` is an identifier character in this grammar)', has('CountField { field: "by-region" }')),
    ("QUERY e for_x", "error (for_x is not a clause)", is_err),
    ("QUERY e using_x", "error", is_err),
    ("QUERY e USING time_x", 'time_field "time_x" (not USING TIME _x)', has('time_field: Some("time_x")', "sequence_time_field: None")),
    ("QUERY e PER DAY using_x", "error", is_err),
    ("QUERY e WHERE x = 1 or_y", "error (two operands without operator)", is_err),
    # PlotQL grammar (plotql.rs)
    ("PLOT COUNT OF e FILTER not_x = 1", 'Compare{field:"not_x"} without Not', lambda r: 'field: "not_x"' in r and NOT not in r),
    ("PLOT COUNT of_x", "error (OF missing)", is_err),
    ("PLOT COUNT OF a then_b", "error (then_b is not a sequence separator)", is_err),
    ("PLOT COUNT OF e BREAKDOWN by_x", "error (BY missing)", is_err),
    ("PLOT COUNT OF e FILTER x = 1 or_y = 2", "error", is_err),
    # REPLAY grammar (replay.rs)
    ("REPLAY for_x FOR c", 'event_type Some("for_x"), context_id "c"', has('event_type: Some("for_x")', 'context_id: "c"')),
    ("REPLAY e for_x", "error (FOR missing)", is_err),
    ("REPLAY e FOR c using_x", "error", is_err),
    # STORE grammar (store.rs)
    ("STORE e for_x PAYLOAD {}", "error (FOR missing)", is_err),
    # controls: must keep working
    ("QUERY e WHERE NOT x = 1 AND y = 2 OR z = 3 LIMIT 5", "Or(And(Not(x=1), y=2), z=3), limit 5", has("Or(And(Not(", "limit: Some(5)")),
    ("QUERY e WHERE NOT(x = 1)", "Not(x=1)", has("Not(Compare")),
    ("QUERY e COUNT BY region", "Count + group_by [region]", has('group_by: Some(["region"])')),
    ("STORE e FOR c PAYLOAD {\"a\":1}", "Store", has("Store {")),
    ("REPLAY e FOR c USING ts", "Replay", has('time_field: Some("ts")')),
    ("PLOT COUNT OF a THEN b TOP 3 BY region", "sequence a->b, limit 3", has("FollowedBy", "limit: Some(3)")),
]
run(cases)
