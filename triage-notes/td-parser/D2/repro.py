#!/usr/bin/env python3
"""D2: PlotQL TOP wraps numbers beyond u32 instead of refusing them."""
import os, sys
sys.path.insert(0, os.path.join(os.path.dirname(os.path.abspath(__file__)), "..", "common"))
from tdlib import run, has, is_err

cases = [
    ("PLOT COUNT OF e TOP 4294967296", "error (beyond u32), as QUERY ... LIMIT 4294967296", is_err),
    ("PLOT COUNT OF e TOP 4294967297", "error (beyond u32)", is_err),
    ("PLOT COUNT OF e BREAKDOWN BY r TOP 99999999999 BY r", "error (beyond u32)", is_err),
    ("PLOT COUNT OF a VS COUNT OF b TOP 4294967296", "error (beyond u32)", is_err),
    # controls
    ("PLOT COUNT OF e TOP 4294967295", "limit Some(4294967295)", has("limit: Some(4294967295)")),
    ("PLOT COUNT OF e TOP 0", "limit Some(0) (pinned by plotql_tests::parses_top_zero)", has("limit: Some(0)")),
    ("PLOT COUNT OF e TOP -1", "error (negative)", is_err),
    ("PLOT COUNT OF e TOP 99999999999999999999", "error (beyond i64)", is_err),
    ("QUERY e LIMIT 4294967296", "error (reference behaviour of the QUERY grammar)", is_err),
]
run(cases)
