#!/usr/bin/env python3
"""D3: DEFINE ... AS <version> silently alters versions that are not u32 integers."""
import os, sys
sys.path.insert(0, os.path.join(os.path.dirname(os.path.abspath(__file__)), "..", "common"))
from tdlib import run, has, is_err

F = ' FIELDS { a: "int" }'
cases = [
    ("DEFINE e AS 4294967296" + F, "error (beyond u32); observed on base: version Some(4294967295)", is_err),
    ("DEFINE e AS 99999999999999999999999" + F, "error (beyond u32)", is_err),
    ("DEFINE e AS 1.7" + F, "error (not an integer); observed on base: version Some(1)", is_err),
    ("DEFINE e AS 0.5" + F, "error (not an integer)", is_err),
    # controls
    ("DEFINE e AS 2" + F, "version Some(2)", has("version: Some(2)")),
    ("DEFINE e AS 4294967295" + F, "version Some(4294967295)", has("version: Some(4294967295)")),
    ("DEFINE e AS 3.0" + F, "version Some(3) (integral value, accepted today)", has("version: Some(3)")),
    ("DEFINE e AS -1" + F, "error (negative)", is_err),
    ("DEFINE e" + F, "version None", has("version: None")),
]
# Not repaired (tokenizer behaviour pinned by tokenizer_tests, see ROOTCAUSE.md); reported, not counted:
known = [("DEFINE e AS 1-2" + F, "error; observed: version Some(0)")]
if "--with-known" in sys.argv:
    cases += [(i, w, is_err) for i, w in known]
run(cases)
