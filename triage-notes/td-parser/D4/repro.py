#!/usr/bin/env python3
"""D4: BATCH [ X ] must parse X exactly as X parses on its own. BATCH rebuilds the text of X from
tokens (numbers through f64, strings un-escaped and not re-escaped, parentheses / '[' dropped)."""
import os, sys
sys.path.insert(0, os.path.join(os.path.dirname(os.path.abspath(__file__)), "..", "common"))
from tdlib import parse_all

inner = [
    'QUERY e WHERE x = 9007199254740993',                 # D4 as reported: integer precision
    'STORE e FOR c PAYLOAD {"p":9007199254740993}',       # same, in a payload (would be stored altered)
    'STORE e FOR c PAYLOAD {"p":"a\\"b"}',                # escaped quote in a JSON string
    'STORE e FOR c PAYLOAD {"p":"a\\\\b"}',               # escaped backslash: silently becomes \b (backspace)
    'STORE e FOR c PAYLOAD {"p":"a\\nb"}',                # escaped newline
    'QUERY e WHERE (a = 1 OR b = 2) AND c = 3',           # side finding: parentheses dropped, precedence changes
    'QUERY e RETURN [a, b] WHERE a = 1',                  # side finding: '[' dropped, ']' ends the batch
    'QUERY e WHERE x = "a\\"b"',                          # as reported; an error on its own too (QUERY strings have no escapes)
    # controls
    'QUERY e WHERE x = 42 AND y = "NL" LIMIT 5',
    'STORE e FOR c PAYLOAD {"id": 1, "status": "pending", "amount": 12.5}',
    'PING',
]
inputs = []
for x in inner:
    inputs += [x, "BATCH [ %s ]" % x]
res = parse_all(inputs)
bad = 0
for x in inner:
    alone = res[x]
    b = res["BATCH [ %s ]" % x]
    if alone.startswith("Ok("):
        want = "Ok(Batch([%s]))" % alone[3:-1]
        ok = b == want
    else:
        want = "Err(...) (the command is rejected on its own as well)"
        ok = b.startswith("Err(")
    bad += 0 if ok else 1
    print("%s parse_command(%r)\n     observed: %s\n     expected: %s" % ("ok      " if ok else "VIOLATED", "BATCH [ %s ]" % x, b, want))
print("%d of %d cases violated" % (bad, len(inner)))
sys.exit(1 if bad else 0)
