#!/usr/bin/env python3
"""D5: a string literal that is still open at the end of the input is accepted by the tokenizer."""
import os, sys
sys.path.insert(0, os.path.join(os.path.dirname(os.path.abspath(__file__)), "..", "common"))
from tdlib import run, has, is_err

cases = [
    ('SHOW "abc', 'error (unterminated string); observed on base: Ok(ShowMaterialized{name:"abc"})', is_err),
    ('CREATE USER "abc', "error (unterminated string); observed on base: Ok(CreateUser{user_id:\"abc\"})", is_err),
    ('CREATE USER bob WITH KEY "secret', "error (unterminated string)", is_err),
    ('DEFINE e FIELDS { a: "int }', "error (unterminated string)", is_err),
    ('BATCH [ PING; SHOW "abc ]', "error", is_err),
    # controls: terminated strings keep working
    ('SHOW "abc"', "ShowMaterialized abc", has('ShowMaterialized { name: "abc" }')),
    ('CREATE USER "abc"', "CreateUser abc", has('user_id: "abc"')),
    ('SHOW "a\\"', "error (tokenizer reads \\\" as an escaped quote: unterminated)", is_err),
    # controls: commands parsed by the PEG grammars from the raw text keep their own string rules
    ('QUERY e WHERE a = "C:\\dir\\"', 'Ok, value C:\\dir\\ (PEG strings have no escapes; works today)', has("Ok(Query", 'String("C:\\\\dir\\\\")')),
    ('QUERY e WHERE a = "x\\" AND b = "y"', "Ok, And(a=x\\, b=y) (works today)", has("Ok(Query", "And(")),
    ('QUERY e WHERE a = "abc', "error (PEG grammar rejects it itself)", is_err),
    ('STORE e FOR "c\\" PAYLOAD {"a":1}', "Ok (works today)", has("Ok(Store")),
]
run(cases)
