#!/usr/bin/env python3
"""E1: pre-1970 fractional instants: the integer-epoch spelling and the ISO spelling of the SAME instant
must be stored as the same epoch second (floor, like the ISO and the float paths).

usage: repro.py            (binary: $SNEL_BIN, default = unmodified build)
exit 0 = every stored value equals floor(instant), 1 = violated.
"""
import os, sys
sys.path.insert(0, os.path.join(os.path.dirname(os.path.abspath(__file__)), "..", "lib"))
from common import Server, payload

# (id, payload literal for "at", expected stored epoch seconds = floor of the instant)
CASES = [
    (1, '"1966-10-31T14:13:19.500Z"', -100000001),   # ISO path (reference)
    (2, '-100000000500',              -100000001),   # same instant, epoch ms
    (3, '-100000000500000',           -100000001),   # same instant, epoch us
    (4, '-100000000500000000',        -100000001),   # same instant, epoch ns
    (5, '-100000000.5',               -100000001),   # same instant, float seconds (floors today)
    (6, '-100000000000',              -100000000),   # exact negative ms multiple: unchanged
    (7, '-100000000',                 -100000000),   # negative seconds: unchanged
    (8, '1740823200500',               1740823200),  # positive ms: unchanged
    (9, '1740823200500000',            1740823200),  # positive us: unchanged
    (10, '1740823200500000000',        1740823200),  # positive ns: unchanged
    (11, '"2025-03-01T10:00:00.500Z"', 1740823200),  # positive ISO
]

srv = Server("E1")
rc = 0
try:
    srv.cmd('DEFINE ev FIELDS {"id":"int","at":"datetime"}')
    for i, lit, _ in CASES:
        r = srv.cmd('STORE ev FOR c1 PAYLOAD {"id":%d,"at":%s}' % (i, lit), wait=0.3)
        if "200" not in r:
            print("STORE rejected:", i, lit, r)
    rows = {payload(r)["id"]: payload(r)["at"] for r in srv.query("QUERY ev")}
    print("== history")
    for c, r in srv.history:
        print(">>", c, "\n  ", r.strip().replace("\n", " | ")[:400])
    print("== observed vs expected")
    for i, lit, exp in CASES:
        got = rows.get(i)
        ok = got == exp
        print("  id=%-2d at=%-28s stored=%-12s expected=%-12s %s" % (i, lit, got, exp, "OK" if ok else "VIOLATED"))
        if not ok:
            rc = 1
finally:
    srv.stop()
print("exit", rc)
sys.exit(rc)
