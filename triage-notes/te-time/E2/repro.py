#!/usr/bin/env python3
"""E2: after FLUSH a zone that holds a pre-1970 value of a datetime field disappears from every
temporal-pruned query on that field (WHERE at <op> .., SINCE .. USING at), although the same
queries answer correctly from the memtable.

Data (event_per_zone=2, insertion order = zone order):
  zone0: id1, id2  at = 2025-03-01T10:00:00Z (two ISO spellings)
  zone1: id3 (same instant as epoch ms), id4 (1966, epoch ms)      <- mixed zone: id3 is lost
  zone2: id5 (1966, ISO), id6 (-10)                                <- all-negative zone
  zone3: id7 (-20), id8 (-30)                                      <- all-negative zone close to 0
Every query is compared with `QUERY ev` (full scan, no pruning) filtered in this script.

usage: repro.py      (binary: $SNEL_BIN, default = unmodified build)
exit 0 = all flushed answers equal the filtered full scan, 1 = rows missing / extra.
"""
import os, sys, time
sys.path.insert(0, os.path.join(os.path.dirname(os.path.abspath(__file__)), "..", "lib"))
from common import Server, payload

T = 1740823200  # 2025-03-01T10:00:00Z
EVENTS = [
    '{"id":1,"at":"2025-03-01T10:00:00Z"}',
    '{"id":2,"at":"2025-03-01T12:00:00+02:00"}',
    '{"id":3,"at":1740823200000}',
    '{"id":4,"at":-100000000500}',
    '{"id":5,"at":"1966-10-31T14:13:19.500Z"}',
    '{"id":6,"at":-10}',
    '{"id":7,"at":-20}',
    '{"id":8,"at":-30}',
]
# (query text after "QUERY ev ", predicate on the stored `at`)
CHECKS = [
    ('WHERE at >= "2025-03-01T10:00:00Z"',        lambda a: a >= T),
    ('WHERE at < 0',                              lambda a: a < 0),
    ('SINCE "2025-03-01T10:00:00Z" USING at',     lambda a: a >= T),
    ('WHERE at = "2025-03-01T10:00:00Z"',         lambda a: a == T),
    ('WHERE at = 1740823200',                     lambda a: a == T),
    ('WHERE at > 0',                              lambda a: a > 0),
    ('WHERE at >= 0',                             lambda a: a >= 0),
    ('WHERE at < "2025-03-01T10:00:01Z"',         lambda a: a < T + 1),
    ('WHERE at <= 1740823200',                    lambda a: a <= T),
    ('WHERE at = -100000001',                     lambda a: a == -100000001),
    ('WHERE at = -10',                            lambda a: a == -10),
    ('WHERE at = "1966-10-31T14:13:19Z"',         lambda a: a == -100000001),
    ('WHERE at > -100000001',                     lambda a: a > -100000001),
    ('WHERE at >= -100000001',                    lambda a: a >= -100000001),
    ('WHERE at > -25',                            lambda a: a > -25),
    ('WHERE at >= -20',                           lambda a: a >= -20),
    ('WHERE at < -25',                            lambda a: a < -25),
    ('WHERE at <= -30',                           lambda a: a <= -30),
    ('WHERE at < -100000001',                     lambda a: a < -100000001),
    ('SINCE "-25" USING at',                      lambda a: a >= -25),
]

srv = Server("E2")
rc = 0
try:
    srv.cmd('DEFINE ev FIELDS {"id":"int","at":"datetime"}')
    for e in EVENTS:
        r = srv.cmd("STORE ev FOR c1 PAYLOAD " + e, wait=0.3)
        if "200" not in r:
            print("STORE rejected:", e, r)
    pre = {q: srv.query("QUERY ev " + q) for q, _ in CHECKS}
    srv.cmd("FLUSH", wait=0.5)
    time.sleep(1.5)
    full = srv.query("QUERY ev")
    print("== history")
    for c, r in srv.history:
        print(">>", c, "\n  ", r.strip().replace("\n", " | ")[:400])
    ids = lambda rows: sorted(payload(r)["id"] for r in rows)
    print("== full scan after FLUSH:", sorted((payload(r)["id"], payload(r)["at"]) for r in full))
    if len(full) != len(EVENTS):
        print("   full scan lost rows"); rc = 1
    for q, pred in CHECKS:
        got = srv.query("QUERY ev " + q)
        exp = ids([r for r in full if pred(payload(r)["at"])])
        g = ids(got)
        bad = [r for r in got if not pred(payload(r)["at"])]
        status = "OK" if g == exp else "VIOLATED (missing ids %s, extra ids %s)" % (
            sorted(set(exp) - set(g)), sorted(set(g) - set(exp)))
        print("QUERY ev %-42s expected %-26s observed %-26s before-FLUSH %-26s %s" % (q, exp, g, ids(pre[q]), status))
        if g != exp or bad:
            rc = 1
finally:
    srv.stop()
print("exit", rc)
sys.exit(rc)
