#!/usr/bin/env python3
"""E3: QUERY .. SINCE <unquoted numeric epoch> is documented (docs/src/commands/query.md:
`QUERY orders SINCE 1735689600000 USING created_at WHERE amount >= 10`, syntax.md: "SINCE: ISO-8601
timestamp string ... or numeric epoch (s/ms/us/ns)") but the grammar only takes a string literal.

usage: repro.py      (binary: $SNEL_BIN, default = unmodified build)
exit 0 = the unquoted spellings parse and return the same rows as the quoted spelling, 1 = violated.
REPLAY is shown for information only (docs/src/commands/replay.md documents `SINCE <timestamp:STRING>`).
"""
import os, sys
sys.path.insert(0, os.path.join(os.path.dirname(os.path.abspath(__file__)), "..", "lib"))
from common import Server, payload

EVENTS = [
    '{"id":1,"at":"2025-03-01T10:00:00Z"}',
    '{"id":2,"at":"2025-03-01T12:00:00+02:00"}',
    '{"id":3,"at":1740823200000}',
    '{"id":4,"at":"2025-03-01T09:59:59Z"}',
]
QUOTED = 'SINCE "1740823200000000" USING at'
UNQUOTED = [
    'SINCE 1740823200000000 USING at',        # us (the item)
    'SINCE 1740823200 USING at',              # s
    'SINCE 1740823200000 USING at',           # ms (the spelling of the docs example)
    'SINCE 1740823200000000000 USING at',     # ns
    'SINCE 1740823200000 USING at WHERE id >= 2 LIMIT 10',   # shape of the docs example
    'USING at SINCE 1740823200000',           # clause order is free
]

srv = Server("E3")
rc = 0
try:
    srv.cmd('DEFINE ev FIELDS {"id":"int","at":"datetime"}')
    for e in EVENTS:
        srv.cmd("STORE ev FOR c1 PAYLOAD " + e, wait=0.3)
    ids = lambda rows: sorted(payload(r)["id"] for r in rows)
    ref = ids(srv.query("QUERY ev " + QUOTED))
    print("reference  QUERY ev %s -> ids %s" % (QUOTED, ref))
    if ref != [1, 2, 3]:
        print("  reference answer unexpected"); rc = 1
    for q in UNQUOTED:
        raw = srv.cmd("QUERY ev " + q, wait=1.0)
        got = ids(srv.query("QUERY ev " + q))
        exp = [2, 3] if "WHERE" in q else ref
        err = raw.strip().splitlines()[0] if "error" in raw.lower() else ""
        ok = (not err) and got == exp
        print("QUERY ev %-52s expected ids %-10s observed ids %-10s %s %s" % (q, exp, got, "OK" if ok else "VIOLATED", err))
        if not ok:
            rc = 1
    r = srv.cmd('REPLAY ev FOR c1 SINCE 1740823200', wait=1.0)
    print("info: REPLAY ev FOR c1 SINCE 1740823200 ->", r.strip().splitlines()[0][:120])
    print("== history")
    for c, r in srv.history:
        print(">>", c, "\n  ", r.strip().replace("\n", " | ")[:300])
finally:
    srv.stop()
print("exit", rc)
sys.exit(rc)
