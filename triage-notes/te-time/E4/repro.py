#!/usr/bin/env python3
"""E4: QUERY ev COUNT PER HOUR USING at reports every pre-1970 row under one `null` bucket
(different pre-1970 hours are merged into it), before and after FLUSH.

usage: repro.py      (binary: $SNEL_BIN, default = unmodified build)
exit 0 = buckets equal {floor(at/3600)*3600: count} computed from the full scan (UTC config), 1 = violated.
"""
import collections, os, sys, time
sys.path.insert(0, os.path.join(os.path.dirname(os.path.abspath(__file__)), "..", "lib"))
from common import Server, payload

EVENTS = [
    '{"id":1,"at":"2025-03-01T10:00:00Z"}',
    '{"id":2,"at":"2025-03-01T12:00:00+02:00"}',
    '{"id":3,"at":1740823200000}',
    '{"id":4,"at":-100000000500}',
    '{"id":5,"at":"1966-10-31T14:13:19.500Z"}',
    '{"id":6,"at":-10}',
    '{"id":7,"at":-20}',
]
QUERIES = [("QUERY ev COUNT PER HOUR USING at", 3600), ("QUERY ev COUNT PER DAY USING at", 86400)]

srv = Server("E4")
rc = 0
try:
    srv.cmd('DEFINE ev FIELDS {"id":"int","at":"datetime"}')
    for e in EVENTS:
        srv.cmd("STORE ev FOR c1 PAYLOAD " + e, wait=0.3)
    for phase in ("before FLUSH", "after FLUSH"):
        if phase == "after FLUSH":
            srv.cmd("FLUSH", wait=0.5)
            time.sleep(1.5)
        full = srv.query("QUERY ev")
        for q, width in QUERIES:
            exp = collections.Counter((payload(r)["at"] // width) * width for r in full)
            got = {r["bucket"]: r["count"] for r in srv.query(q)}
            ok = got == dict(exp)
            print("%-12s %s\n    expected %s\n    observed %s  %s" % (
                phase, q, sorted(exp.items()), sorted(got.items(), key=lambda kv: (kv[0] is not None, kv[0] or 0)),
                "OK" if ok else "VIOLATED"))
            if not ok:
                rc = 1
    print("== history")
    for c, r in srv.history:
        print(">>", c, "\n  ", r.strip().replace("\n", " | ")[:300])
finally:
    srv.stop()
print("exit", rc)
sys.exit(rc)
