#!/usr/bin/env python3
"""F1: PRECEDED BY misses a valid match when the first a-event is older than every b-event.
exit 0 = correct, 1 = violated.  SNEL_BIN selects the server binary."""
import os, sys
sys.path.insert(0, os.path.join(os.path.dirname(os.path.abspath(__file__)), "..", "common"))
import harness as h

DEFS = ['DEFINE pv FIELDS {"page":"string","uid":"string","at":"int"}',
        'DEFINE oc FIELDS {"oid":"int","uid":"string","at":"int"}']
ok = True
# the reported history
ok &= h.check("F1.a  pv@5, oc@10, pv@20  PRECEDED BY",
    DEFS + ['STORE pv FOR c1 PAYLOAD {"page":"/a","uid":"u1","at":5}',
            'STORE oc FOR c2 PAYLOAD {"oid":1,"uid":"u1","at":10}',
            'STORE pv FOR c3 PAYLOAD {"page":"/b","uid":"u1","at":20}'],
    'QUERY pv PRECEDED BY oc LINKED BY uid USING TIME at',
    [(("oc", 10), ("pv", 20))])
# several leading a's, several b's; every a after the first b must be matched with the latest earlier b
ok &= h.check("F1.b  pv@1, pv@2, oc@10, pv@10, pv@15, oc@17, pv@20  PRECEDED BY",
    DEFS + ['STORE pv FOR c1 PAYLOAD {"page":"/a","uid":"u1","at":1}',
            'STORE pv FOR c2 PAYLOAD {"page":"/a","uid":"u1","at":2}',
            'STORE oc FOR c3 PAYLOAD {"oid":1,"uid":"u1","at":10}',
            'STORE pv FOR c4 PAYLOAD {"page":"/a","uid":"u1","at":10}',
            'STORE pv FOR c5 PAYLOAD {"page":"/a","uid":"u1","at":15}',
            'STORE oc FOR c6 PAYLOAD {"oid":2,"uid":"u1","at":17}',
            'STORE pv FOR c7 PAYLOAD {"page":"/a","uid":"u1","at":20}'],
    'QUERY pv PRECEDED BY oc LINKED BY uid USING TIME at',
    [(("oc", 10), ("pv", 15)), (("oc", 17), ("pv", 20))])
# control that works today (must stay the same)
ok &= h.check("F1.c  control: oc@10, pv@20, pv@30  PRECEDED BY",
    DEFS + ['STORE oc FOR c2 PAYLOAD {"oid":1,"uid":"u1","at":10}',
            'STORE pv FOR c3 PAYLOAD {"page":"/b","uid":"u1","at":20}',
            'STORE pv FOR c4 PAYLOAD {"page":"/b","uid":"u1","at":30}'],
    'QUERY pv PRECEDED BY oc LINKED BY uid USING TIME at',
    [(("oc", 10), ("pv", 20)), (("oc", 10), ("pv", 30))])
print("RESULT:", "correct" if ok else "VIOLATED")
sys.exit(0 if ok else 1)
