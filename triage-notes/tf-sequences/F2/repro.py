#!/usr/bin/env python3
"""F2: negative values of the USING TIME field are ordered as huge unsigned numbers.
exit 0 = correct, 1 = violated."""
import os, sys
sys.path.insert(0, os.path.join(os.path.dirname(os.path.abspath(__file__)), "..", "common"))
import harness as h
DEFS = ['DEFINE pv FIELDS {"page":"string","uid":"string","at":"int"}',
        'DEFINE oc FIELDS {"oid":"int","uid":"string","at":"int"}']
H = DEFS + ['STORE pv FOR c1 PAYLOAD {"page":"/a","uid":"u2","at":-5}',
            'STORE oc FOR c2 PAYLOAD {"oid":1,"uid":"u2","at":3}']
ok = True
ok &= h.check("F2.a  pv@-5, oc@3  FOLLOWED BY", H,
    'QUERY pv FOLLOWED BY oc LINKED BY uid USING TIME at', [(("pv", -5), ("oc", 3))])
ok &= h.check("F2.b  pv@-5, oc@3  pv PRECEDED BY oc", H,
    'QUERY pv PRECEDED BY oc LINKED BY uid USING TIME at', [])
# ordering inside a group: negative values must sort before positive ones
ok &= h.check("F2.c  pv@-5, pv@4, oc@-2, oc@6  FOLLOWED BY",
    DEFS + ['STORE pv FOR c1 PAYLOAD {"page":"/a","uid":"u2","at":4}',
            'STORE pv FOR c2 PAYLOAD {"page":"/a","uid":"u2","at":-5}',
            'STORE oc FOR c3 PAYLOAD {"oid":1,"uid":"u2","at":6}',
            'STORE oc FOR c4 PAYLOAD {"oid":2,"uid":"u2","at":-2}'],
    'QUERY pv FOLLOWED BY oc LINKED BY uid USING TIME at',
    [(("pv", -5), ("oc", -2)), (("pv", 4), ("oc", 6))])
print("RESULT:", "correct" if ok else "VIOLATED")
sys.exit(0 if ok else 1)
