#!/usr/bin/env python3
"""F3: string link values "007" and "7" are linked (and displayed as 7).
exit 0 = correct, 1 = violated."""
import os, sys
sys.path.insert(0, os.path.join(os.path.dirname(os.path.abspath(__file__)), "..", "common"))
import harness as h
DEFS = ['DEFINE pv FIELDS {"page":"string","uid":"string","at":"int"}',
        'DEFINE oc FIELDS {"oid":"int","uid":"string","at":"int"}']
ok = True
ok &= h.check('F3.a  pv(uid="007")@1, oc(uid="7")@2  FOLLOWED BY (link must be exact string equality)',
    DEFS + ['STORE pv FOR c1 PAYLOAD {"page":"/a","uid":"007","at":1}',
            'STORE oc FOR c2 PAYLOAD {"oid":1,"uid":"7","at":2}'],
    'QUERY pv FOLLOWED BY oc LINKED BY uid USING TIME at', [])
def shown(rows, resp):
    uids = [h.flat(r).get("uid") for r in rows]
    return uids == ["007", "007"], "uid column = %r" % uids
ok &= h.check('F3.b  pv(uid="007")@1, oc(uid="007")@2  FOLLOWED BY: pair returned, uid shown as "007"',
    DEFS + ['STORE pv FOR c1 PAYLOAD {"page":"/a","uid":"007","at":1}',
            'STORE oc FOR c2 PAYLOAD {"oid":1,"uid":"007","at":2}'],
    'QUERY pv FOLLOWED BY oc LINKED BY uid USING TIME at', None, row_pred=shown,
    describe='uid column = ["007", "007"]')
ok &= h.check('F3.c  control: int link values pv(oid-like k=7) still link',
    ['DEFINE pk FIELDS {"k":"int","at":"int"}', 'DEFINE ok FIELDS {"k":"int","at":"int"}',
     'STORE pk FOR c1 PAYLOAD {"k":7,"at":1}', 'STORE ok FOR c2 PAYLOAD {"k":7,"at":2}',
     'STORE ok FOR c3 PAYLOAD {"k":70,"at":3}'],
    'QUERY pk FOLLOWED BY ok LINKED BY k USING TIME at', [(("pk", 1), ("ok", 2))])
print("RESULT:", "correct" if ok else "VIOLATED")
sys.exit(0 if ok else 1)
