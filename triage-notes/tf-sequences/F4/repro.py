#!/usr/bin/env python3
"""F4: absent / null link values are linked to each other, and the number of such pairs
depends on where the events are stored.  exit 0 = correct, 1 = violated."""
import os, sys
sys.path.insert(0, os.path.join(os.path.dirname(os.path.abspath(__file__)), "..", "common"))
import harness as h
DEFS = ['DEFINE pv FIELDS {"page":"string","uid":"string | null","at":"int"}',
        'DEFINE oc FIELDS {"oid":"int","uid":"string | null","at":"int"}']
ok = True
ok &= h.check("F4.a  pv(no uid)@1, oc(no uid)@2, pv(uid=null)@3, oc(uid=null)@4, pv(u1)@5, oc(u1)@6  FOLLOWED BY",
    DEFS + ['STORE pv FOR c1 PAYLOAD {"page":"/a","at":1}',
            'STORE oc FOR c2 PAYLOAD {"oid":1,"at":2}',
            'STORE pv FOR c3 PAYLOAD {"page":"/b","uid":null,"at":3}',
            'STORE oc FOR c4 PAYLOAD {"oid":2,"uid":null,"at":4}',
            'STORE pv FOR c5 PAYLOAD {"page":"/c","uid":"u1","at":5}',
            'STORE oc FOR c6 PAYLOAD {"oid":3,"uid":"u1","at":6}'],
    'QUERY pv FOLLOWED BY oc LINKED BY uid USING TIME at', [(("pv", 5), ("oc", 6))])
ok &= h.check("F4.b  the same, but the oc events are stored after the FLUSH (pv on disk, oc in memory)",
    DEFS + ['STORE pv FOR c1 PAYLOAD {"page":"/a","at":1}',
            'STORE pv FOR c3 PAYLOAD {"page":"/b","uid":null,"at":3}',
            'STORE pv FOR c5 PAYLOAD {"page":"/c","uid":"u1","at":5}'],
    'QUERY pv FOLLOWED BY oc LINKED BY uid USING TIME at', [(("pv", 5), ("oc", 6))],
    post=['STORE oc FOR c2 PAYLOAD {"oid":1,"at":2}',
          'STORE oc FOR c4 PAYLOAD {"oid":2,"uid":null,"at":4}',
          'STORE oc FOR c6 PAYLOAD {"oid":3,"uid":"u1","at":6}'])
ok &= h.check("F4.c  null int link values: pv(k=null)@1, oc(k=null)@2, pv(k=1)@3, oc(k=1)@4",
    ['DEFINE pv FIELDS {"page":"string","k":"int | null","at":"int"}',
     'DEFINE oc FIELDS {"oid":"int","k":"int | null","at":"int"}',
     'STORE pv FOR c1 PAYLOAD {"page":"/a","k":null,"at":1}',
     'STORE oc FOR c2 PAYLOAD {"oid":1,"at":2}',
     'STORE pv FOR c3 PAYLOAD {"page":"/a","k":1,"at":3}',
     'STORE oc FOR c4 PAYLOAD {"oid":1,"k":1,"at":4}'],
    'QUERY pv FOLLOWED BY oc LINKED BY k USING TIME at', [(("pv", 3), ("oc", 4))])
print("RESULT:", "correct" if ok else "VIOLATED")
sys.exit(0 if ok else 1)
