#!/usr/bin/env python3
"""F5: a RETURN list that omits the link field (or the USING TIME field) makes a sequence
query return 0 rows.  exit 0 = correct, 1 = violated."""
import os, sys
sys.path.insert(0, os.path.join(os.path.dirname(os.path.abspath(__file__)), "..", "common"))
import harness as h
DEFS = ['DEFINE pv FIELDS {"page":"string","uid":"string","at":"int"}',
        'DEFINE oc FIELDS {"oid":"int","uid":"string","at":"int"}']
H = DEFS + ['STORE pv FOR c1 PAYLOAD {"page":"/a","uid":"u1","at":5}',
            'STORE oc FOR c2 PAYLOAD {"oid":1,"uid":"u1","at":10}',
            'STORE oc FOR c3 PAYLOAD {"oid":2,"uid":"u1","at":3}',
            'STORE pv FOR c4 PAYLOAD {"page":"/b","uid":"u9","at":1}']
def want(cols_allowed):
    def pred(rows, resp):
        evs = [(h.flat(r).get("event_type"), h.flat(r).get("context_id"), h.flat(r).get("page")) for r in rows]
        extra = sorted(set(k for r in rows for k in h.flat(r)) - set(cols_allowed))
        good = evs == [("pv", "c1", "/a"), ("oc", "c2", None)] and not extra
        return good, "rows(event_type, context_id, page) = %r, columns outside the RETURN list = %r" % (evs, extra)
    return pred
CORE = ["event_type", "context_id", "timestamp", "event_id"]
D = 'rows = [(pv, c1, /a), (oc, c2, None)], no payload columns outside the RETURN list'
ok = True
ok &= h.check("F5.a  RETURN [page] (link field and time field not listed)", H,
    'QUERY pv FOLLOWED BY oc LINKED BY uid USING TIME at RETURN [page]', None,
    row_pred=want(CORE + ["page"]), describe=D)
ok &= h.check("F5.b  RETURN [page, at] (link field not listed)", H,
    'QUERY pv FOLLOWED BY oc LINKED BY uid USING TIME at RETURN [page, at]', None,
    row_pred=want(CORE + ["page", "at"]), describe=D)
ok &= h.check("F5.c  RETURN [page, uid] (time field not listed: ordering must still use at)", H,
    'QUERY pv FOLLOWED BY oc LINKED BY uid USING TIME at RETURN [page, uid]', None,
    row_pred=want(CORE + ["page", "uid"]), describe=D)
ok &= h.check("F5.d  control: RETURN [page, uid, at]", H,
    'QUERY pv FOLLOWED BY oc LINKED BY uid USING TIME at RETURN [page, uid, at]', None,
    row_pred=want(CORE + ["page", "uid", "at"]), describe=D)
# auxiliary finding (prerequisite of the above): a RETURN list with several payload fields is
# collected into a HashSet, the memtable flow computes it twice -> values land in wrong columns
def aligned(rows, resp):
    got = [(h.flat(r).get("page"), h.flat(r).get("uid"), h.flat(r).get("at")) for r in rows]
    return got == [("/a", "u1", 5)], "(page, uid, at) = %r" % got
for i in range(4):
    ok &= h.check("F5.e  plain QUERY pv WHERE page = \"/a\" RETURN [page, uid, at], run %d" % (i + 1), H,
        'QUERY pv WHERE page = "/a" RETURN [page, uid, at]', None, row_pred=aligned,
        describe='(page, uid, at) = [("/a", "u1", 5)]')
print("RESULT:", "correct" if ok else "VIOLATED")
sys.exit(0 if ok else 1)
