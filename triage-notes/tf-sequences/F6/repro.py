#!/usr/bin/env python3
"""F6: an unprefixed WHERE condition on a field that exists on only one side returns 0 rows.
exit 0 = correct (condition applied to the side that has the field), 1 = violated."""
import os, sys
sys.path.insert(0, os.path.join(os.path.dirname(os.path.abspath(__file__)), "..", "common"))
import harness as h
DEFS = ['DEFINE pv FIELDS {"page":"string","uid":"string","at":"int"}',
        'DEFINE oc FIELDS {"oid":"int","uid":"string","at":"int","status":"string"}']
H = DEFS + ['STORE pv FOR c1 PAYLOAD {"page":"/a","uid":"u1","at":5}',
            'STORE oc FOR c2 PAYLOAD {"oid":1,"uid":"u1","at":10,"status":"done"}',
            'STORE pv FOR c3 PAYLOAD {"page":"/b","uid":"u2","at":5}',
            'STORE oc FOR c4 PAYLOAD {"oid":2,"uid":"u2","at":10,"status":"open"}']
ok = True
ok &= h.check('F6.a  WHERE status = "done" (status exists only on oc)', H,
    'QUERY pv FOLLOWED BY oc LINKED BY uid USING TIME at WHERE status = "done"',
    None, row_pred=lambda rows, resp: ([h.flat(r).get("context_id") for r in rows] == ["c1", "c2"],
                                       "contexts = %r" % [h.flat(r).get("context_id") for r in rows]),
    describe='contexts = ["c1", "c2"]')
ok &= h.check('F6.b  WHERE page = "/a" (page exists only on pv)', H,
    'QUERY pv FOLLOWED BY oc LINKED BY uid USING TIME at WHERE page = "/a"',
    None, row_pred=lambda rows, resp: ([h.flat(r).get("context_id") for r in rows] == ["c1", "c2"],
                                       "contexts = %r" % [h.flat(r).get("context_id") for r in rows]),
    describe='contexts = ["c1", "c2"]')
ok &= h.check('F6.c  control: prefixed WHERE oc.status = "done"', H,
    'QUERY pv FOLLOWED BY oc LINKED BY uid USING TIME at WHERE oc.status = "done"',
    None, row_pred=lambda rows, resp: ([h.flat(r).get("context_id") for r in rows] == ["c1", "c2"],
                                       "contexts = %r" % [h.flat(r).get("context_id") for r in rows]),
    describe='contexts = ["c1", "c2"]')
print("RESULT:", "correct" if ok else "VIOLATED")
sys.exit(0 if ok else 1)
