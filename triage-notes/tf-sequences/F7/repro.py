#!/usr/bin/env python3
"""F7: WHERE oc.amount > 9 with a float amount 9.5 returns 0 rows.
exit 0 = correct, 1 = violated."""
import os, sys
sys.path.insert(0, os.path.join(os.path.dirname(os.path.abspath(__file__)), "..", "common"))
import harness as h
DEFS = ['DEFINE pv FIELDS {"page":"string","uid":"string","at":"int"}',
        'DEFINE oc FIELDS {"oid":"int","uid":"string","at":"int","amount":"float"}']
H = DEFS + ['STORE pv FOR c1 PAYLOAD {"page":"/a","uid":"u1","at":5}',
            'STORE oc FOR c2 PAYLOAD {"oid":1,"uid":"u1","at":10,"amount":9.5}',
            'STORE pv FOR c3 PAYLOAD {"page":"/b","uid":"u2","at":5}',
            'STORE oc FOR c4 PAYLOAD {"oid":2,"uid":"u2","at":10,"amount":12.0}',
            'STORE pv FOR c5 PAYLOAD {"page":"/b","uid":"u3","at":5}',
            'STORE oc FOR c6 PAYLOAD {"oid":3,"uid":"u3","at":10,"amount":8.5}']
ctx = lambda rows, resp: [h.flat(r).get("context_id") for r in rows]
ok = True
ok &= h.check('F7.a  sequence query WHERE oc.amount > 9 (amounts 9.5, 12.0, 8.5)', H,
    'QUERY pv FOLLOWED BY oc LINKED BY uid USING TIME at WHERE oc.amount > 9',
    None, row_pred=lambda rows, resp: (sorted(ctx(rows, resp)) == ["c1", "c2", "c3", "c4"], "contexts = %r" % sorted(ctx(rows, resp))),
    describe='contexts = [c1, c2, c3, c4]')
ok &= h.check('F7.b  comparison: plain query on the same data, QUERY oc WHERE amount > 9', H,
    'QUERY oc WHERE amount > 9',
    None, row_pred=lambda rows, resp: (sorted(ctx(rows, resp)) == ["c2", "c4"], "contexts = %r" % sorted(ctx(rows, resp))),
    describe='contexts = [c2, c4]')
print("RESULT:", "correct" if ok else "VIOLATED")
sys.exit(0 if ok else 1)
