#!/usr/bin/env python3
"""F8: QUERY pv FOLLOWED BY pv LINKED BY uid pairs every event with itself.
exit 0 = correct, 1 = violated."""
import os, sys
sys.path.insert(0, os.path.join(os.path.dirname(os.path.abspath(__file__)), "..", "common"))
import harness as h
DEFS = ['DEFINE pv FIELDS {"page":"string","uid":"string","at":"int"}']
def ctxpairs(rows, resp):
    c = [h.flat(r).get("context_id") for r in rows]
    return [tuple(c[i:i + 2]) for i in range(0, len(c), 2)]
ok = True
ok &= h.check('F8.a  pv(u1)@1 c1, pv(u1)@5 c2, pv(u2)@3 c3   pv FOLLOWED BY pv',
    DEFS + ['STORE pv FOR c1 PAYLOAD {"page":"/a","uid":"u1","at":1}',
            'STORE pv FOR c2 PAYLOAD {"page":"/b","uid":"u1","at":5}',
            'STORE pv FOR c3 PAYLOAD {"page":"/c","uid":"u2","at":3}'],
    'QUERY pv FOLLOWED BY pv LINKED BY uid USING TIME at', None,
    row_pred=lambda rows, resp: (sorted(ctxpairs(rows, resp)) == [("c1", "c2")], "pairs (context ids) = %r" % sorted(ctxpairs(rows, resp))),
    describe='pairs = [(c1, c2)]  (an event is not its own successor; u2 has a single event)')
ok &= h.check('F8.b  same data, pv PRECEDED BY pv (strict <: never pairs an event with itself)',
    DEFS + ['STORE pv FOR c1 PAYLOAD {"page":"/a","uid":"u1","at":1}',
            'STORE pv FOR c2 PAYLOAD {"page":"/b","uid":"u1","at":5}',
            'STORE pv FOR c3 PAYLOAD {"page":"/c","uid":"u2","at":3}'],
    'QUERY pv PRECEDED BY pv LINKED BY uid USING TIME at', None,
    row_pred=lambda rows, resp: (sorted(ctxpairs(rows, resp)) == [("c1", "c2")], "pairs (context ids) = %r" % sorted(ctxpairs(rows, resp))),
    describe='pairs = [(c1, c2)]')
print("RESULT:", "correct" if ok else "VIOLATED")
sys.exit(0 if ok else 1)
