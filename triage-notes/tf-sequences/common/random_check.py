#!/usr/bin/env python3
"""Randomised differential check of FOLLOWED BY / PRECEDED BY against a brute-force oracle
(used on the patched build; on the base build it fails through F1/F2/F4).
usage: random_check.py [n_histories] [seed]"""
import random, sys, os
sys.path.insert(0, os.path.dirname(os.path.abspath(__file__)))
import harness as h
n = int(sys.argv[1]) if len(sys.argv) > 1 else 12
rnd = random.Random(int(sys.argv[2]) if len(sys.argv) > 2 else 1)
DEFS = ['DEFINE pv FIELDS {"page":"string","uid":"string | null","at":"int"}',
        'DEFINE oc FIELDS {"oid":"int","uid":"string | null","at":"int"}']
bad = 0
for i in range(n):
    evs = []
    for j in range(rnd.randint(2, 14)):
        et = rnd.choice(["pv", "oc"])
        uid = rnd.choice(["u1", "u2", "u3", None])
        at = rnd.randint(-6, 12)
        evs.append((et, "c%d" % j, uid, at))
    cmds = list(DEFS)
    for et, c, uid, at in evs:
        u = "null" if uid is None else '"%s"' % uid
        if et == "pv":
            cmds.append('STORE pv FOR %s PAYLOAD {"page":"/p","uid":%s,"at":%d}' % (c, u, at))
        else:
            cmds.append('STORE oc FOR %s PAYLOAD {"oid":1,"uid":%s,"at":%d}' % (c, u, at))
    shards, flush = rnd.choice(h.PLACEMENTS)
    for kind in ("FOLLOWED", "PRECEDED"):
        q = 'QUERY pv %s BY oc LINKED BY uid USING TIME at' % kind
        hist, resp = h.run_history(cmds, q, shards, flush)
        rows = [h.flat(r) for r in h.parse_rows(resp)]
        got = [tuple(rows[k:k + 2]) for k in range(0, len(rows), 2)]
        A = [e for e in evs if e[0] == "pv" and e[2] is not None]
        B = [e for e in evs if e[0] == "oc" and e[2] is not None]
        want = {}
        for a in A:
            if kind == "FOLLOWED":
                c = [b[3] for b in B if b[2] == a[2] and b[3] >= a[3]]
                if c: want[a[1]] = min(c)
            else:
                c = [b[3] for b in B if b[2] == a[2] and b[3] < a[3]]
                if c: want[a[1]] = max(c)
        have = {}
        okp = True
        for p in got:
            if len(p) != 2: okp = False; continue
            x, y = p
            a, b = (x, y) if kind == "FOLLOWED" else (y, x)
            if a.get("event_type") != "pv" or b.get("event_type") != "oc" or a.get("uid") != b.get("uid"):
                okp = False
            have[a.get("context_id")] = b.get("at")
        good = okp and have == want and len(got) == len(want)
        print("history %d [%d shard(s), %s] %s BY: %s  (a-events matched: %d)" % (
            i, shards, "flushed" if flush else "memory", kind, "ok" if good else "MISMATCH", len(want)))
        if not good:
            bad += 1
            print("   events:", evs); print("   want a->b.at:", want); print("   have a->b.at:", have)
print("RESULT:", "correct" if not bad else "%d MISMATCHES" % bad)
sys.exit(1 if bad else 0)
