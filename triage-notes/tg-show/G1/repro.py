#!/usr/bin/env python3
"""G1: multi-batch delta within one shard; the second SHOW must not repeat rows.
exit 0 = every live event returned exactly once by both SHOWs, 1 = violated."""
import os, sys
sys.path.insert(0, os.path.join(os.path.dirname(os.path.abspath(__file__)), "..", "lib"))
from showlib import Server, contexts, rows

srv = Server(shards=1, epz=4, ff=100)
try:
    srv.cmd('DEFINE ev FIELDS { "a": "int" }')
    srv.cmd('STORE ev FOR c1 PAYLOAD {"a":1}')
    srv.cmd('REMEMBER QUERY ev AS m')
    srv.cmd('STORE ev FOR c2 PAYLOAD {"a":2}')
    srv.cmd('FLUSH', wait=1.0)
    srv.cmd('STORE ev FOR c3 PAYLOAD {"a":3}')
    show1 = srv.cmd('SHOW m', wait=1.0)
    show2 = srv.cmd('SHOW m', wait=1.0)
    live = contexts(srv.cmd('QUERY ev', wait=1.0))
finally:
    srv.stop()

expected = ["c1", "c2", "c3"]
got1, got2 = contexts(show1), contexts(show2)
print("---")
print("live events (QUERY ev):", live)
print("expected SHOW rows    :", expected)
print("observed SHOW #1      :", got1)
print("observed SHOW #2      :", got2)
marks = [(r["timestamp"], r["event_id"], r["context_id"]) for r in rows(show1)]
print("SHOW #1 emission order (timestamp, event_id, ctx):", marks)
ok = live == expected and got1 == expected and got2 == expected
print("RESULT:", "correct" if ok else "VIOLATED (a live event is not returned exactly once)")
sys.exit(0 if ok else 1)
