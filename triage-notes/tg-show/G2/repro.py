#!/usr/bin/env python3
"""G2: REMEMBER over several batches (auto-flushed segment + memtable, 1 or 2 shards)
records the LAST batch's mark; the following SHOW must still return each event once.
The 2-shard variant depends on the arrival order of shard batches, so every variant is
run ROUNDS times on a fresh server; any violation => exit 1.  exit 0 = all correct."""
import os, sys
sys.path.insert(0, os.path.join(os.path.dirname(os.path.abspath(__file__)), "..", "lib"))
from showlib import Server, contexts, rows, remember_mark

ROUNDS = int(os.environ.get("ROUNDS", "3"))
expected = ["c0", "c1", "c2"]
bad = 0


def variant(shards):
    global bad
    srv = Server(shards=shards, epz=2, ff=1)
    try:
        srv.cmd('DEFINE ev FIELDS { "a": "int" }')
        for i in range(3):  # back to back
            srv.cmd('STORE ev FOR c%d PAYLOAD {"a":%d}' % (i, i), wait=0.05)
        rem = srv.cmd('REMEMBER QUERY ev AS m1', wait=1.0)
        show1 = srv.cmd('SHOW m1', wait=1.0)
        show2 = srv.cmd('SHOW m1', wait=1.0)
        live_resp = srv.cmd('QUERY ev', wait=1.0)
    finally:
        srv.stop()
    live = contexts(live_resp)
    true_max = max((r["timestamp"], r["event_id"]) for r in rows(live_resp))
    mark = remember_mark(rem)
    got1, got2 = contexts(show1), contexts(show2)
    print("---")
    print("live events (QUERY ev)      :", live)
    print("maximum (timestamp,event_id):", true_max)
    print("REMEMBER high-water mark    :", mark, "(expected the maximum)")
    print("expected SHOW rows          :", expected)
    print("observed SHOW #1            :", got1)
    print("observed SHOW #2            :", got2)
    ok = live == expected and got1 == expected and got2 == expected and mark == true_max
    print("variant shard_count=%d:" % shards, "correct" if ok else "VIOLATED")
    if not ok:
        bad += 1


for shards in (2, 1):
    for _ in range(ROUNDS):
        variant(shards)

print("===")
print("RESULT:", "correct" if bad == 0 else "VIOLATED in %d of %d runs" % (bad, 2 * ROUNDS))
sys.exit(0 if bad == 0 else 1)
