#!/usr/bin/env python3
"""H1: ORDER BY on a STRING field is not the string order, and is not even a total order.

exit 0 = correct (lexicographic order, independent of shard placement), 1 = violated.
"""
import os
import sys

sys.path.insert(0, os.path.join(os.path.dirname(os.path.abspath(__file__)), ".."))
from common import Server, rows, columns  # noqa: E402

M = (1 << 64) - 1


def _rotl(x, b):
    return ((x << b) | (x >> (64 - b))) & M


def rust_default_hash_str(s):
    """std::collections::hash_map::DefaultHasher (SipHash-1-3, zero keys) of a &str."""
    data = s.encode() + b"\xff"
    v0, v1, v2, v3 = 0x736f6d6570736575, 0x646f72616e646f6d, 0x6c7967656e657261, 0x7465646279746573

    def rnd(v0, v1, v2, v3):
        v0 = (v0 + v1) & M; v1 = _rotl(v1, 13); v1 ^= v0; v0 = _rotl(v0, 32)
        v2 = (v2 + v3) & M; v3 = _rotl(v3, 16); v3 ^= v2
        v0 = (v0 + v3) & M; v3 = _rotl(v3, 21); v3 ^= v0
        v2 = (v2 + v1) & M; v1 = _rotl(v1, 17); v1 ^= v2; v2 = _rotl(v2, 32)
        return v0, v1, v2, v3
    n = len(data)
    end = n - n % 8
    for i in range(0, end, 8):
        m = int.from_bytes(data[i:i + 8], "little")
        v3 ^= m; v0, v1, v2, v3 = rnd(v0, v1, v2, v3); v0 ^= m
    b = ((n & 0xff) << 56) | int.from_bytes(data[end:], "little")
    v3 ^= b; v0, v1, v2, v3 = rnd(v0, v1, v2, v3); v0 ^= b
    v2 ^= 0xff
    for _ in range(3):
        v0, v1, v2, v3 = rnd(v0, v1, v2, v3)
    return v0 ^ v1 ^ v2 ^ v3


def ctx_for_shard(shard, nshards, used):
    """A context id that ShardManager::get_shard routes to `shard`."""
    i = 0
    while True:
        c = f"k{i}"
        if c not in used and rust_default_hash_str(c) % nshards == shard:
            used.add(c)
            return c
        i += 1


def order_of(reply, field="s"):
    idx = columns(reply).index(field)
    return [str(r[idx]) for r in rows(reply)]      # str(): flushed digit strings come back as JSON numbers


violations = []


def check(label, got, expected):
    ok = got == expected
    print(f"   {label}: observed {got}  expected {expected}  -> {'ok' if ok else 'VIOLATED'}")
    if not ok:
        violations.append(label)


# ---------------------------------------------------------------- part 1: one shard
print("== part 1: one shard, STRING field s = 10, 9, 1a, b, 2")
vals = ["10", "9", "1a", "b", "2"]
lex = sorted(vals)
srv = Server(shards=1, epz=4).start()
try:
    srv.send('DEFINE ev FIELDS {"s":"string"}')
    for i, v in enumerate(vals):
        srv.send('STORE ev FOR c%d PAYLOAD {"s":"%s"}' % (i, v), wait=0.2)
    r = srv.send("QUERY ev ORDER BY s")
    check("1 shard, in memory, ASC", order_of(r), lex)
    r = srv.send("QUERY ev ORDER BY s DESC")
    check("1 shard, in memory, DESC", order_of(r), lex[::-1])
    srv.send("FLUSH", wait=1.0)
    r = srv.send("QUERY ev ORDER BY s")
    check("1 shard, after FLUSH, ASC", order_of(r), lex)
finally:
    srv.cleanup()

# ---------------------------------------------------------------- part 2: two shards, cyclic triple
print("== part 2: two shards; the triple 10 < 1a < 9 < 10 (comparator cycle) placed three ways")
triple = ["10", "1a", "9"]
lex3 = sorted(triple)
placements = {           # value -> shard
    "p1": {"10": 0, "9": 0, "1a": 1},
    "p2": {"10": 0, "1a": 0, "9": 1},
    "p3": {"1a": 0, "9": 0, "10": 1},
}
srv = Server(shards=2, epz=4).start()
seen = {"memory": {}, "flushed": {}}
try:
    used = set()
    for p, place in placements.items():
        srv.send('DEFINE ev_%s FIELDS {"s":"string"}' % p)
        for v in triple:
            c = ctx_for_shard(place[v], 2, used)
            print(f"   (context {c} hashes to shard {place[v]})")
            srv.send('STORE ev_%s FOR %s PAYLOAD {"s":"%s"}' % (p, c, v), wait=0.2)
    for p in placements:
        r = srv.send("QUERY ev_%s ORDER BY s" % p)
        seen["memory"][p] = order_of(r)
    srv.send("FLUSH", wait=1.5)
    shard_dirs = sorted(d for d in os.listdir(srv.d + "/cols") if d.startswith("shard-"))
    print("   shard directories with segments after FLUSH:",
          [d for d in shard_dirs if any(x.isdigit() for x in os.listdir(f"{srv.d}/cols/{d}"))])
    for p in placements:
        r = srv.send("QUERY ev_%s ORDER BY s" % p)
        seen["flushed"][p] = order_of(r)
finally:
    srv.cleanup()

for phase in ("memory", "flushed"):
    for p in placements:
        check(f"2 shards, {phase}, placement {p} {placements[p]}", seen[phase][p], lex3)
    distinct = {tuple(v) for v in seen[phase].values()}
    ok = len(distinct) == 1
    print(f"   2 shards, {phase}: same rows, {len(distinct)} distinct result order(s) over 3 placements"
          f" -> {'ok' if ok else 'VIOLATED (order depends on placement)'}")
    if not ok:
        violations.append(f"placement-dependence {phase}")

print()
if violations:
    print("RESULT: VIOLATED -", len(violations), "checks failed:")
    for v in violations:
        print("   -", v)
    sys.exit(1)
print("RESULT: correct (string field sorts lexicographically, independent of placement)")
sys.exit(0)
