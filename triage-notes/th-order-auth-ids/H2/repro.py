#!/usr/bin/env python3
"""H2: RETURN [...] that does not list the ORDER BY field makes the query fail with 500.

exit 0 = correct (rows come back sorted by n), 1 = violated.
"""
import os
import sys

sys.path.insert(0, os.path.join(os.path.dirname(os.path.abspath(__file__)), ".."))
from common import Server, rows, columns  # noqa: E402

DATA = [("c1", "a", 5), ("c2", "b", 3), ("c3", "c", 9), ("c4", "d", 1), ("c5", "e", 7), ("c6", "f", 2)]
violations = []


def run_phase(srv, phase):
    # control: the same query with the sort field listed works
    r = srv.send('QUERY ev RETURN ["g","n"] ORDER BY n ASC LIMIT 4')
    cols = columns(r)
    ctrl = [(x[cols.index("g")], x[cols.index("n")]) for x in rows(r)] if cols else None
    print(f"   [{phase}] control RETURN [g,n]: {ctrl}")

    for q, exp_g in (('QUERY ev RETURN ["g"] ORDER BY n ASC LIMIT 4', ["d", "f", "b", "a"]),
                     ('QUERY ev RETURN ["g"] ORDER BY n DESC LIMIT 2', ["c", "e"]),
                     ('QUERY ev RETURN ["g"] ORDER BY n ASC LIMIT 2 OFFSET 1', ["f", "b"])):
        r = srv.send(q)
        cols = columns(r)
        if cols is None or "g" not in cols:
            print(f"   [{phase}] {q}\n      observed: {r.strip().splitlines()[:2]}\n      expected: g = {exp_g}  -> VIOLATED")
            violations.append(f"{phase}: {q}")
            continue
        got = [x[cols.index("g")] for x in rows(r)]
        ok = got == exp_g
        print(f"   [{phase}] {q}\n      observed: columns={cols} g={got}\n      expected: g={exp_g}  -> {'ok' if ok else 'VIOLATED'}")
        if not ok:
            violations.append(f"{phase}: {q}")
    # a query without ORDER BY must keep the narrow projection
    r = srv.send('QUERY ev RETURN ["g"] LIMIT 10')
    cols = columns(r)
    print(f"   [{phase}] no ORDER BY: columns={cols} rows={len(rows(r))}")
    if cols is None or "n" in cols or len(rows(r)) != len(DATA):
        violations.append(f"{phase}: plain RETURN [g] changed")


for shards in (1, 2):
    print(f"== {shards} shard(s)")
    srv = Server(shards=shards, epz=4).start()
    try:
        srv.send('DEFINE ev FIELDS {"g":"string","n":"int"}')
        for c, g, n in DATA:
            srv.send('STORE ev FOR %s PAYLOAD {"g":"%s","n":%d}' % (c, g, n), wait=0.2, quiet=True)
        print(f"   stored {DATA}")
        run_phase(srv, f"{shards} shard, memory")
        srv.send("FLUSH", wait=1.5)
        run_phase(srv, f"{shards} shard, flushed")
    finally:
        srv.cleanup()

print()
if violations:
    print("RESULT: VIOLATED -", len(violations), "checks failed:")
    for v in violations:
        print("   -", v)
    sys.exit(1)
print("RESULT: correct")
sys.exit(0)
