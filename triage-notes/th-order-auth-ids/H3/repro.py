#!/usr/bin/env python3
"""H3: a sequence query is authorised on its HEAD event type only.

exit 0 = correct (403 for a user without READ on every event type of the sequence), 1 = violated.
"""
import os
import sys

sys.path.insert(0, os.path.join(os.path.dirname(os.path.abspath(__file__)), ".."))
from common import Server, rows, status, AUTH_ON  # noqa: E402

ADMIN = ("admin", "adminkey")
EVE = ("eve", "evekey")
violations = []


def leaked(reply):
    return [r for r in rows(reply) if "secret_evt" in r]


def expect_denied(srv, q):
    r = srv.send(q, user=EVE, wait=0.8)
    st = status(r) or ""
    leak = leaked(r)
    ok = st.startswith("403") and not leak
    print(f"      observed: status={st or '<row stream>'} secret_evt rows returned={len(leak)}"
          f"   expected: 403 Forbidden, 0 rows -> {'ok' if ok else 'VIOLATED'}")
    if not ok:
        violations.append(q)


def expect_rows(srv, q, n, what):
    r = srv.send(q, user=EVE, wait=0.8)
    got = len(rows(r))
    ok = got == n
    print(f"      observed: {got} rows ({what})   expected: {n} -> {'ok' if ok else 'VIOLATED'}")
    if not ok:
        violations.append(q)


srv = Server(shards=1, epz=4, auth=AUTH_ON).start()
try:
    for c in ('DEFINE pub_evt FIELDS {"id":"int","p":"string"}',
              'DEFINE secret_evt FIELDS {"id":"int","p":"string"}',
              'STORE pub_evt FOR c1 PAYLOAD {"id":1,"p":"hello"}',
              'STORE secret_evt FOR c1 PAYLOAD {"id":1,"p":"TOP-SECRET"}',
              'CREATE USER eve WITH KEY evekey',
              'GRANT READ ON pub_evt TO eve',
              'SHOW PERMISSIONS FOR eve'):
        srv.send(c, user=ADMIN)

    for phase in ("memory", "flushed"):
        print(f"== {phase}")
        print("   control: eve may read pub_evt, may not read secret_evt directly")
        expect_rows(srv, "QUERY pub_evt", 1, "pub_evt")
        expect_denied(srv, "QUERY secret_evt")
        print("   sequence queries touching secret_evt")
        expect_denied(srv, "QUERY pub_evt FOLLOWED BY secret_evt LINKED BY id")
        expect_denied(srv, "QUERY secret_evt PRECEDED BY pub_evt LINKED BY id")      # head itself is secret: denied today too
        expect_denied(srv, "QUERY pub_evt PRECEDED BY secret_evt LINKED BY id")
        if phase == "memory":
            srv.send("FLUSH", user=ADMIN, wait=1.5)

    print("== a sequence over readable types only must keep working")
    srv.send("GRANT READ ON secret_evt TO eve", user=ADMIN)
    expect_rows(srv, "QUERY pub_evt FOLLOWED BY secret_evt LINKED BY id", 2, "pub_evt + secret_evt, now permitted")
finally:
    srv.cleanup()

print()
if violations:
    print("RESULT: VIOLATED -", len(violations), "checks failed:")
    for v in violations:
        print("   -", v)
    sys.exit(1)
print("RESULT: correct")
sys.exit(0)
