#!/usr/bin/env python3
"""H4: compaction re-allocates the id of an orphan output directory and writes into it.

Scenario (segments_per_merge = 3, one shard):
  run 1   STORE 6 "new" ev rows, 3 x FLUSH -> segments 00000 00001 00002 (in segments.idx); stop.
  crash   a directory shard-0/10000 that is NOT in segments.idx is left on disk. It is a genuine L1 segment
          (same schema uids, rows k="old" for ev plus rows for a second event type ev2), produced by a donor
          server - what a kill -9 between `index.save` and `schedule_reclaim`, or during a compaction, leaves.
  run 2   restart; a reader touches the data; the background compactor runs once.

exit 0 = correct: compaction does not write into the pre-existing directory, flushed rows stay readable
exit 1 = violated
"""
import hashlib
import os
import shutil
import sys
import tempfile
import time

sys.path.insert(0, os.path.join(os.path.dirname(os.path.abspath(__file__)), ".."))
from common import Server, rows  # noqa: E402

BIG = dict(shards=1, epz=100, ff=10, spm=3)       # memtable never fills: only FLUSH makes segments
violations = []


def shard_dir(srv):
    return f"{srv.d}/cols/shard-0"


def listing(srv, label):
    print(f"   [{label}] {shard_dir(srv)}:")
    for x in sorted(os.listdir(shard_dir(srv))):
        p = f"{shard_dir(srv)}/{x}"
        if os.path.isdir(p) and x.isdigit():
            fs = sorted(os.listdir(p))
            uids = sorted({f.split(".")[0].split("_")[0] for f in fs})
            print(f"      {x}/  {len(fs)} files, uids {uids}")


def digest(d):
    h = {}
    for f in sorted(os.listdir(d)):
        h[f] = hashlib.sha1(open(f"{d}/{f}", "rb").read()).hexdigest()
    return h


def flush(srv, expect_dirs, quiet=False):
    """FLUSH and wait until the new segment directory is completely written (file count stable)."""
    srv.send("FLUSH", wait=1, quiet=quiet)
    last, stable = None, 0
    for _ in range(80):
        dirs = [x for x in os.listdir(shard_dir(srv)) if x.isdigit()] if os.path.isdir(shard_dir(srv)) else []
        cur = sorted((x, len(os.listdir(f"{shard_dir(srv)}/{x}"))) for x in dirs)
        stable = stable + 1 if (cur == last and len(dirs) >= expect_dirs) else 0
        if stable >= 3:
            return
        last = cur
        time.sleep(0.4)
    raise RuntimeError("flush did not settle")


def q(srv, cmd):
    r = srv.send(cmd, quiet=True)
    got = rows(r)
    print(f">> {cmd}\n      {len(got)} rows: {sorted(str(x[0]) for x in got)}")
    return got


def check(label, ok, observed, expected):
    print(f"   CHECK {label}\n      observed: {observed}\n      expected: {expected}  -> {'ok' if ok else 'VIOLATED'}")
    if not ok:
        violations.append(label)


root = tempfile.mkdtemp(prefix="h4_", dir="/var/tmp/th")
w, donor = f"{root}/w", f"{root}/donor"
os.makedirs(w)
os.makedirs(donor)
srv = ds = None
try:
    print("== run 1: new data, three flushed L0 segments, no compaction (interval 3000 s)")
    srv = Server(comp_int=3000, workdir=w, **BIG).start()
    srv.send('DEFINE ev FIELDS {"k":"string","n":"int"}')
    srv.send('DEFINE ev2 FIELDS {"z":"string"}')
    for f in range(3):
        for i in range(2):
            srv.send('STORE ev FOR new%d PAYLOAD {"k":"new","n":%d}' % (f * 2 + i, f * 2 + i), wait=0.15)
        flush(srv, f + 1)
    listing(srv, "after run 1")
    assert len(q(srv, "QUERY ev")) == 6
    srv.stop()

    print("== donor: same schema, old data, compacted into a real L1 segment 10000")
    shutil.copytree(f"{w}/schema", f"{donor}/schema")
    ds = Server(comp_int=3000, workdir=donor, **BIG).start()
    for f in range(3):
        for i in range(2):
            ds.send('STORE ev FOR old%d PAYLOAD {"k":"old","n":%d}' % (f * 2 + i, 100 + f * 2 + i), wait=0.15, quiet=True)
            ds.send('STORE ev2 FOR o%d PAYLOAD {"z":"stale%d"}' % (f * 2 + i, f * 2 + i), wait=0.15, quiet=True)
        flush(ds, f + 1, quiet=True)
    ds.stop()
    ds.params["comp_int"] = 2
    ds.start()
    for _ in range(40):
        if os.path.isdir(f"{donor}/cols/shard-0/10000") and not os.path.isdir(f"{donor}/cols/shard-0/00000"):
            break
        time.sleep(0.5)
    time.sleep(1)
    ds.stop()
    listing(ds, "donor")

    print("== crash leftover: plant shard-0/10000 (not in segments.idx)")
    orphan = f"{w}/cols/shard-0/10000"
    shutil.copytree(f"{donor}/cols/shard-0/10000", orphan)
    before = digest(orphan)
    idx_labels_has_l1 = b"10000" in open(f"{w}/cols/shard-0/segments.idx", "rb").read()
    listing(srv, "before run 2")

    print("== run 2: restart, read once, let the compactor run (interval 3 s)")
    srv.params["comp_int"] = 3
    t_start = time.time()
    srv.start()
    pre = q(srv, "QUERY ev")                      # reader touches every directory on disk (incl. the orphan)
    q(srv, "QUERY ev2")
    for _ in range(60):
        if not os.path.isdir(f"{w}/cols/shard-0/00000"):
            break
        time.sleep(0.5)
    time.sleep(1.5)
    listing(srv, "after compaction")

    after = digest(orphan) if os.path.isdir(orphan) else {}
    changed = sorted(f for f in before if after.get(f) != before[f])
    kept = sorted(f for f in before if after.get(f) == before[f])
    check("compaction must not write into the pre-existing directory 10000",
          not changed,
          f"{len(changed)} of {len(before)} stale files overwritten in place, {len(kept)} stale files kept next to them"
          if changed else "directory 10000 untouched",
          "0 files of 10000 modified (output goes to a fresh id)")
    new_dirs = sorted(x for x in os.listdir(shard_dir(srv)) if x.isdigit() and x != "10000")
    check("compaction output has its own directory", new_dirs == ["10001"], f"directories besides 10000: {new_dirs}", "['10001']")

    post = q(srv, "QUERY ev")
    got_new = sorted(r[0] for r in post if str(r[0]).startswith("new"))
    check("flushed rows stay readable after the compaction (same process)",
          got_new == [f"new{i}" for i in range(6)], f"new rows returned: {got_new}", "new0..new5")
    f_new = q(srv, 'QUERY ev WHERE k = "new"')
    check('QUERY ev WHERE k = "new" after the compaction', len(f_new) == 6, f"{len(f_new)} rows", "6 rows")
    srv.stop()

    print("== run 3: cold restart, what the on-disk state answers")
    srv.params["comp_int"] = 3000
    srv.start()
    cold = q(srv, "QUERY ev")
    cold2 = q(srv, "QUERY ev2")
    old_cold = sorted(r[0] for r in cold if str(r[0]).startswith("old"))
    new_cold = sorted(r[0] for r in cold if str(r[0]).startswith("new"))
    check("cold read returns every flushed row", new_cold == [f"new{i}" for i in range(6)], f"new rows: {new_cold}", "new0..new5")
    print(f"   info: rows served from the orphan directory after restart: ev old rows={len(old_cold)}, ev2 rows={len(cold2)}"
          " (reads list directories, not segments.idx - separate issue, see ROOTCAUSE.md)")
    if idx_labels_has_l1:
        print("   note: segments.idx unexpectedly mentioned 10000 before run 2")
finally:
    for s in (srv, ds):
        if s:
            s.stop()
    shutil.rmtree(root, ignore_errors=True)

print()
if violations:
    print("RESULT: VIOLATED -", len(violations), "checks failed:")
    for v in violations:
        print("   -", v)
    sys.exit(1)
print("RESULT: correct")
sys.exit(0)
