#!/usr/bin/env python3
"""I1: a quoted literal that looks like a number (`uid = "7"`) is compared numerically against a
STRING-typed field, so "007" / "07" also match.
One server per placement (1|2 shards x memory | flushed | mixed); all queries run on it.
exit 0 = correct (string field compared as text), 1 = violated."""
import os, sys, time
sys.path.insert(0, os.path.join(os.path.dirname(os.path.abspath(__file__)), "..", "common"))
import harness as h

DEFS = ['DEFINE pv FIELDS {"uid":"string","n":"int","page":"string"}']
PART1 = ['STORE pv FOR c1 PAYLOAD {"uid":"7","n":7,"page":"/a"}',
         'STORE pv FOR c2 PAYLOAD {"uid":"007","n":70,"page":"/b"}']
PART2 = ['STORE pv FOR c3 PAYLOAD {"uid":"07","n":7,"page":"/c"}',
         'STORE pv FOR c4 PAYLOAD {"uid":"8","n":8,"page":"/d"}',
         'STORE pv FOR c5 PAYLOAD {"uid":"abc","n":-7,"page":"/e"}']
# (query, expected set of context ids, counts for the exit code?)
QUERIES = [
    ('QUERY pv WHERE uid = "7"', {"c1"}, True),
    ('QUERY pv WHERE uid != "7"', {"c2", "c3", "c4", "c5"}, True),
    ('QUERY pv WHERE uid IN ("7", "9")', {"c1"}, True),
    ('QUERY pv WHERE uid = "007"', {"c2"}, True),
    # NOT counts only for unflushed data: on flushed data NOT drops every zone that contains a match
    # (also `NOT page = "/a"`, `NOT n = 7`) - a separate zone-pruning defect, see ROOTCAUSE.md
    ('QUERY pv WHERE NOT uid = "7"', {"c2", "c3", "c4", "c5"}, "memory"),
    ('QUERY pv WHERE uid = "7" OR page = "/e"', {"c1", "c5"}, True),
    # informational: range operators have no text ordering at all in this engine (StringCondition
    # answers false for < <= > >=); "as text" would be {c2 "007", c3 "07"} for uid < "10"
    ('QUERY pv WHERE uid < "10"', {"c2", "c3"}, False),
    # controls on the numeric field: must be the same before and after a repair
    ('QUERY pv WHERE n = 7', {"c1", "c3"}, True),
    ('QUERY pv WHERE n = "7"', {"c1", "c3"}, True),
    ('QUERY pv WHERE n != "7"', {"c2", "c4", "c5"}, True),
    ('QUERY pv WHERE n IN ("7", "8")', {"c1", "c3", "c4"}, True),
    ('QUERY pv WHERE n < "8"', {"c1", "c3", "c5"}, True),
    ('QUERY pv WHERE uid = "abc"', {"c5"}, True),
]
PLACEMENTS = [(s, p) for s in (1, 2) for p in ("memory", "flushed", "mixed")]


def ctxs(resp):
    return sorted(h.flat(r).get("context_id") for r in h.parse_rows(resp))


def main():
    ok = True
    print("history:")
    for c in DEFS + PART1:
        print("   ", c)
    print("    [FLUSH here in the 'mixed' placement]")
    for c in PART2:
        print("   ", c)
    print("    [FLUSH here in the 'flushed' placement]")
    for shards, place in PLACEMENTS:
        srv = h.Server(shards)
        try:
            hist = srv.send(DEFS + PART1, wait=0.15)
            if place == "mixed":
                hist += srv.send(["FLUSH"], wait=0.15)
                time.sleep(1.0)
            hist += srv.send(PART2, wait=0.15)
            if place == "flushed":
                hist += srv.send(["FLUSH"], wait=0.15)
                time.sleep(1.0)
            bad = [(c, r) for c, r in hist if "200" not in r[:60]]
            if bad:
                print("  non-200 setup replies:", bad)
            print("--- %d shard(s), %s" % (shards, place))
            for q, exp, counts in QUERIES:
                resp = srv.send([q], wait=0.6)[0][1]
                got = ctxs(resp)
                good = got == sorted(exp)
                counts = counts is True or counts == place
                tag = "ok" if good else ("VIOLATED" if counts else "differs (informational)")
                print("   %-45s observed %-32s expected %-32s %s" % (q, got, sorted(exp), tag))
                if counts and not good:
                    ok = False
        finally:
            srv.stop()
    print("RESULT:", "correct" if ok else "VIOLATED")
    return 0 if ok else 1


sys.exit(main())
