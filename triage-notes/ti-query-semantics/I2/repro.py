#!/usr/bin/env python3
"""I2: the result schema of a sequence query is inferred from the first matched event only, so payload
columns that only the other event type has (oc.oid / oc.amount, or pv.page for PRECEDED BY) are dropped.
exit 0 = correct (all payload fields of all matched events are returned), 1 = violated."""
import json, os, sys
sys.path.insert(0, os.path.join(os.path.dirname(os.path.abspath(__file__)), "..", "common"))
import harness as h

DEFS = ['DEFINE pv FIELDS {"page":"string","uid":"string","at":"int"}',
        'DEFINE oc FIELDS {"oid":"int","uid":"string","at":"int","amount":"int"}']
H = DEFS + ['STORE pv FOR c1 PAYLOAD {"page":"/a","uid":"u1","at":1}',
            'STORE oc FOR c2 PAYLOAD {"oid":42,"uid":"u1","at":2,"amount":50}']


def columns(resp):
    for line in resp.splitlines():
        try:
            o = json.loads(line)
        except Exception:
            continue
        if o.get("type") == "schema":
            return [c["name"] for c in o["columns"]]
    return []


def pred(want_cols, want_rows):
    def f(rows, resp):
        cols = columns(resp)
        got = {h.flat(r).get("event_type"): {k: v for k, v in h.flat(r).items() if k in ("page", "oid", "amount", "uid", "at")}
               for r in rows}
        good = all(c in cols for c in want_cols) and all(
            str(got.get(t, {}).get(k)) == str(v) for t, kv in want_rows.items() for k, v in kv.items())
        return good, "columns=%s rows=%s" % (cols, got)
    return f


ok = True
ok &= h.check("I2.a  pv FOLLOWED BY oc: oc's oid / amount must be in the output", H,
              'QUERY pv FOLLOWED BY oc LINKED BY uid USING TIME at', None,
              row_pred=pred(["page", "uid", "at", "oid", "amount"],
                            {"pv": {"page": "/a"}, "oc": {"oid": 42, "amount": 50}}),
              describe="columns contain page, uid, at, oid, amount; pv.page=/a, oc.oid=42, oc.amount=50")
ok &= h.check("I2.b  oc PRECEDED BY pv (the pv event comes first): same", H,
              'QUERY oc PRECEDED BY pv LINKED BY uid USING TIME at', None,
              row_pred=pred(["page", "uid", "at", "oid", "amount"],
                            {"pv": {"page": "/a"}, "oc": {"oid": 42, "amount": 50}}),
              describe="columns contain page, uid, at, oid, amount; pv.page=/a, oc.oid=42, oc.amount=50")
ok &= h.check("I2.c  oc FOLLOWED BY pv (first event is an oc): pv's page must be in the output",
              DEFS + ['STORE oc FOR c2 PAYLOAD {"oid":42,"uid":"u1","at":2,"amount":50}',
                      'STORE pv FOR c1 PAYLOAD {"page":"/a","uid":"u1","at":3}'],
              'QUERY oc FOLLOWED BY pv LINKED BY uid USING TIME at', None,
              row_pred=pred(["page", "uid", "at", "oid", "amount"],
                            {"pv": {"page": "/a"}, "oc": {"oid": 42, "amount": 50}}),
              describe="columns contain page, uid, at, oid, amount; pv.page=/a, oc.oid=42, oc.amount=50")
ok &= h.check("I2.d  control RETURN [page, oid]: only the asked payload fields", H,
              'QUERY pv FOLLOWED BY oc LINKED BY uid USING TIME at RETURN [page, oid]', None,
              row_pred=lambda rows, resp: (
                  sorted(c for c in columns(resp) if c not in ("event_type", "context_id", "timestamp")) == ["oid", "page"],
                  "columns=%s" % columns(resp)),
              describe="payload columns = page, oid")
print("RESULT:", "correct" if ok else "VIOLATED")
sys.exit(0 if ok else 1)
