#!/usr/bin/env python3
"""I3: 'an a-event is matched if and only if a qualifying b-event exists'.
The nearest partner (in time) fails WHERE, a farther one passes: is the a-event still matched?
exit 0 = correct, 1 = violated."""
import os, sys
sys.path.insert(0, os.path.join(os.path.dirname(os.path.abspath(__file__)), "..", "common"))
import harness as h

DEFS = ['DEFINE pv FIELDS {"page":"string","uid":"string","at":"int","amount":"int"}',
        'DEFINE oc FIELDS {"oid":"int","uid":"string","at":"int","amount":"int"}']
ok = True

# --- FOLLOWED BY
HF = DEFS + ['STORE pv FOR c1 PAYLOAD {"page":"/a","uid":"u","at":1,"amount":50}',
             'STORE oc FOR c2 PAYLOAD {"oid":1,"uid":"u","at":2,"amount":1}',
             'STORE oc FOR c3 PAYLOAD {"oid":2,"uid":"u","at":3,"amount":50}']
ok &= h.check("I3.a  FOLLOWED BY, prefixed WHERE oc.amount > 10 (nearest oc@2 fails, oc@3 passes)", HF,
              'QUERY pv FOLLOWED BY oc LINKED BY uid USING TIME at WHERE oc.amount > 10',
              [(("pv", 1), ("oc", 3))])
print("--- informational (not counted): an unprefixed field that both types have is rejected with 400 (documented)")
h.check("I3.b  FOLLOWED BY, unprefixed WHERE amount > 10 (both types have amount; pv@1 amount=50 passes)", HF,
              'QUERY pv FOLLOWED BY oc LINKED BY uid USING TIME at WHERE amount > 10',
              [(("pv", 1), ("oc", 3))])
ok &= h.check("I3.c  FOLLOWED BY, prefixed equality WHERE oc.oid = 2", HF,
              'QUERY pv FOLLOWED BY oc LINKED BY uid USING TIME at WHERE oc.oid = 2',
              [(("pv", 1), ("oc", 3))])
print("--- informational (not counted): OR over two event types acts as AND (each sub-query keeps only its own side)")
h.check("I3.d  FOLLOWED BY, OR over both sides: WHERE oc.amount > 10 OR pv.page = \"/zzz\"", HF,
              'QUERY pv FOLLOWED BY oc LINKED BY uid USING TIME at WHERE oc.amount > 10 OR pv.page = "/zzz"',
              [(("pv", 1), ("oc", 3))])
ok &= h.check("I3.e  control, no WHERE: nearest partner", HF,
              'QUERY pv FOLLOWED BY oc LINKED BY uid USING TIME at',
              [(("pv", 1), ("oc", 2))])
ok &= h.check("I3.f  control, no partner passes: WHERE oc.amount > 100", HF,
              'QUERY pv FOLLOWED BY oc LINKED BY uid USING TIME at WHERE oc.amount > 100', [])

# --- PRECEDED BY: a = pv@10; the latest earlier b (oc@8) fails WHERE, the earlier oc@5 passes
HP = DEFS + ['STORE oc FOR c2 PAYLOAD {"oid":1,"uid":"u","at":5,"amount":50}',
             'STORE oc FOR c3 PAYLOAD {"oid":2,"uid":"u","at":8,"amount":1}',
             'STORE pv FOR c1 PAYLOAD {"page":"/a","uid":"u","at":10,"amount":50}']
ok &= h.check("I3.g  PRECEDED BY, prefixed WHERE oc.amount > 10 (latest earlier oc@8 fails, oc@5 passes)", HP,
              'QUERY pv PRECEDED BY oc LINKED BY uid USING TIME at WHERE oc.amount > 10',
              [(("oc", 5), ("pv", 10))])
print("--- informational (not counted): 400 ambiguity, as I3.b")
h.check("I3.h  PRECEDED BY, unprefixed WHERE amount > 10", HP,
              'QUERY pv PRECEDED BY oc LINKED BY uid USING TIME at WHERE amount > 10',
              [(("oc", 5), ("pv", 10))])
print("--- informational (not counted): OR over two event types, as I3.d")
h.check("I3.i  PRECEDED BY, OR over both sides: WHERE oc.amount > 10 OR pv.page = \"/zzz\"", HP,
              'QUERY pv PRECEDED BY oc LINKED BY uid USING TIME at WHERE oc.amount > 10 OR pv.page = "/zzz"',
              [(("oc", 5), ("pv", 10))])
ok &= h.check("I3.j  control, no WHERE: latest earlier partner", HP,
              'QUERY pv PRECEDED BY oc LINKED BY uid USING TIME at',
              [(("oc", 8), ("pv", 10))])
print("RESULT:", "correct" if ok else "VIOLATED")
sys.exit(0 if ok else 1)
