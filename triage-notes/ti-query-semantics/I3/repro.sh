#!/bin/bash
# I3, one command.  exit 0 = correct, 1 = violated.
#   part 1 (repro.py): real server over TCP - is an a-event kept when its nearest partner fails WHERE?
#   part 2: throw-away unit tests that hand the matcher UNFILTERED zones (SequenceMatcher alone).
# REPO = scratch copy of sneldb (default /var/tmp/ti/repo), CARGO_TARGET_DIR as in the task.
# PART=tcp|unit|all (default all)
HERE=$(cd "$(dirname "$0")" && pwd)
REPO=${REPO:-/var/tmp/ti/repo}
export CARGO_TARGET_DIR=${CARGO_TARGET_DIR:-/var/tmp/ti/target}
PART=${PART:-all}
rc=0
if [ "$PART" != unit ]; then
  echo "##### part 1: server over TCP"
  python3 "$HERE/repro.py" || rc=1
fi
if [ "$PART" != tcp ]; then
  echo "##### part 2: SequenceMatcher with unfiltered zones (throw-away unit tests)"
  T=$REPO/src/engine/core/read/sequence/matcher_test.rs
  cp "$T" "$T.i3bak"
  cat "$HERE/throwaway_matcher_test.rs" >> "$T"
  LOG=$(mktemp)
  (cd "$REPO" && cargo test --offline --lib -- i3_ --nocapture --test-threads 1 >"$LOG" 2>&1) || rc=1
  grep -E "^I3 unit|^test .*i3_|test result|panicked|^error" "$LOG"; rm -f "$LOG"
  mv "$T.i3bak" "$T"
fi
[ $rc = 0 ] && echo "RESULT: correct" || echo "RESULT: VIOLATED"
exit $rc
