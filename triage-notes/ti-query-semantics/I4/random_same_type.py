#!/usr/bin/env python3
"""Randomised check of `pv FOLLOWED BY pv` / `pv PRECEDED BY pv` (many ties) against a brute-force oracle:
every a-event is paired with a nearest other event of its uid (time >= / time <); the partner's time is compared.
usage: random_same_type.py [n_histories] [seed]"""
import random, sys, os
sys.path.insert(0, os.path.join(os.path.dirname(os.path.abspath(__file__)), "..", "common"))
import harness as h
n = int(sys.argv[1]) if len(sys.argv) > 1 else 10
rnd = random.Random(int(sys.argv[2]) if len(sys.argv) > 2 else 1)
DEFS = ['DEFINE pv FIELDS {"page":"string","uid":"string","at":"int"}']
bad = 0
for i in range(n):
    evs = [("c%d" % j, rnd.choice(["u1", "u2"]), rnd.randint(0, 4)) for j in range(rnd.randint(2, 9))]
    cmds = DEFS + ['STORE pv FOR %s PAYLOAD {"page":"%s","uid":"%s","at":%d}' % (c, c, u, at) for c, u, at in evs]
    shards, flush = rnd.choice(h.PLACEMENTS)
    for kind in ("FOLLOWED", "PRECEDED"):
        hist, resp = h.run_history(cmds, 'QUERY pv %s BY pv LINKED BY uid USING TIME at' % kind, shards, flush)
        rows = [h.flat(r) for r in h.parse_rows(resp)]
        have = {}
        for k in range(0, len(rows) - 1, 2):
            a, b = (rows[k], rows[k + 1]) if kind == "FOLLOWED" else (rows[k + 1], rows[k])
            have[a["page"]] = (b["at"], a["page"] != b["page"], a["uid"] == b["uid"])
        want = {}
        for c, u, at in evs:
            if kind == "FOLLOWED":
                cand = [t for c2, u2, t in evs if c2 != c and u2 == u and t >= at]
                if cand: want[c] = (min(cand), True, True)
            else:
                cand = [t for c2, u2, t in evs if c2 != c and u2 == u and t < at]
                if cand: want[c] = (max(cand), True, True)
        good = have == want and len(rows) == 2 * len(want)
        print("history %d [%d shard(s), %s] %s BY: %s (a-events matched: %d)" % (
            i, shards, "flushed" if flush else "memory", kind, "ok" if good else "MISMATCH", len(want)))
        if not good:
            bad += 1
            print("   events:", evs); print("   want:", want); print("   have:", have)
print("RESULT:", "correct" if not bad else "%d MISMATCHES" % bad)
sys.exit(1 if bad else 0)
