#!/usr/bin/env python3
"""I4: `QUERY pv FOLLOWED BY pv LINKED BY uid` with two DISTINCT pv events of one uid at exactly the same time.
'Same time or later' makes each of the two a successor of the other.  Which pairs come back, and is the answer
the same in every placement (1 / 2 shards, in memory / flushed / one flushed + one in memory, either store order)?
exit 0 = the set of pairs is the same in every placement and run, 1 = placement dependent."""
import os, sys, time
sys.path.insert(0, os.path.join(os.path.dirname(os.path.abspath(__file__)), "..", "common"))
import harness as h

RUNS = int(os.environ.get("RUNS", "2"))
DEFS = ['DEFINE pv FIELDS {"page":"string","uid":"string","at":"int"}']


def ev(ctx, page):
    return 'STORE pv FOR %s PAYLOAD {"page":"%s","uid":"u","at":7}' % (ctx, page)


def pairs_by_page(resp):
    rows = [h.flat(r) for r in h.parse_rows(resp)]
    pg = [r.get("page") for r in rows]
    return sorted(tuple(pg[i:i + 2]) for i in range(0, len(pg), 2))


def run(shards, place, first, second, query):
    srv = h.Server(shards)
    try:
        hist = srv.send(DEFS + [first], wait=0.15)
        if place == "mixed":
            hist += srv.send(["FLUSH"], wait=0.15)
            time.sleep(1.0)
        hist += srv.send([second], wait=0.15)
        if place == "flushed":
            hist += srv.send(["FLUSH"], wait=0.15)
            time.sleep(1.0)
        return pairs_by_page(srv.send([query], wait=1.0)[0][1])
    finally:
        srv.stop()


def main():
    q = 'QUERY pv FOLLOWED BY pv LINKED BY uid USING TIME at'
    print("query:", q)
    print("events: x = pv(page=/x, uid=u, at=7), y = pv(page=/y, uid=u, at=7); pairs are printed as (first page, second page)")
    seen = {}
    # context pairs: c1/c2, c1/c3, c1/c4 (at least one pair lands on two different shards with 2 shards), and same context
    for ctx_x, ctx_y in (("c1", "c2"), ("c1", "c3"), ("c1", "c4"), ("c1", "c1")):
        for order in ("x first", "y first"):
            a, b = ev(ctx_x, "/x"), ev(ctx_y, "/y")
            first, second = (a, b) if order == "x first" else (b, a)
            for shards in (1, 2):
                for place in ("memory", "flushed", "mixed"):
                    for n in range(RUNS):
                        got = run(shards, place, first, second, q)
                        key = "contexts %s/%s, stored %s, %d shard(s), %s" % (ctx_x, ctx_y, order, shards, place)
                        print("  %-62s run %d: %s" % (key, n + 1, got))
                        seen.setdefault(repr(got), []).append(key)
    print()
    print("distinct answers:")
    for k, v in seen.items():
        print("  %s   in %d runs" % (k, len(v)))
    both = repr([("/x", "/y"), ("/y", "/x")])
    print("answer allowed by the property 'same time or later' (each is a successor of the other):", both)
    ok = len(seen) == 1
    print("RESULT:", "placement independent" if ok else "PLACEMENT DEPENDENT (VIOLATED)")
    return 0 if ok else 1


sys.exit(main())
