/* LD_PRELOAD shim: shifts the wall clock (CLOCK_REALTIME, gettimeofday, time)
 * by FAKE_CLOCK_OFFSET_MS milliseconds for the whole process. Monotonic clocks
 * are left alone, like a real settimeofday()/NTP step. */
#define _GNU_SOURCE
#include <dlfcn.h>
#include <stdint.h>
#include <stdlib.h>
#include <sys/time.h>
#include <time.h>

static volatile int64_t offset_ms = 0;
static int (*real_clock_gettime)(clockid_t, struct timespec *);

__attribute__((constructor)) static void init(void) {
    const char *v = getenv("FAKE_CLOCK_OFFSET_MS");
    if (v) offset_ms = atoll(v);
}

static void shift(struct timespec *ts) {
    int64_t ns = (int64_t)ts->tv_sec * 1000000000LL + ts->tv_nsec + offset_ms * 1000000LL;
    ts->tv_sec = ns / 1000000000LL;
    ts->tv_nsec = ns % 1000000000LL;
}

int clock_gettime(clockid_t clk, struct timespec *ts) {
    if (!real_clock_gettime) real_clock_gettime = dlsym(RTLD_NEXT, "clock_gettime");
    int rc = real_clock_gettime(clk, ts);
    if (rc == 0 && (clk == CLOCK_REALTIME || clk == CLOCK_REALTIME_COARSE)) shift(ts);
    return rc;
}

int gettimeofday(struct timeval *tv, void *tz) {
    (void)tz;
    struct timespec ts;
    int rc = clock_gettime(CLOCK_REALTIME, &ts);
    if (rc == 0 && tv) { tv->tv_sec = ts.tv_sec; tv->tv_usec = ts.tv_nsec / 1000; }
    return rc;
}

time_t time(time_t *out) {
    struct timespec ts;
    clock_gettime(CLOCK_REALTIME, &ts);
    if (out) *out = ts.tv_sec;
    return ts.tv_sec;
}
