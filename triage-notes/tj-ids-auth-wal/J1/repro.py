#!/usr/bin/env python3
"""J1: event ids must increase in the order in which events were applied, also
across a restart under a wall clock that is earlier than before (C18).
History A (WAL):      DEFINE, STORE n=1, STORE n=2 (no FLUSH), kill, restart 60 s in the past, STORE n=3, QUERY
History B (segments): DEFINE, STORE n=1, STORE n=2, FLUSH (WAL pruned), kill, restart 60 s in the past, STORE n=3, QUERY
History C (A continued): ... restart 60 s in the past, STORE n=3, FLUSH, kill, restart still 60 s in the past, STORE n=4, QUERY
exit 0 = ids increase in all histories, 1 = violated."""
import os, subprocess, sys, time
sys.path.insert(0, os.path.join(os.path.dirname(os.path.abspath(__file__)), "..", "common"))
from harness import Server, parse_rows, flat, TMP

HERE = os.path.dirname(os.path.abspath(__file__))
os.makedirs(TMP, exist_ok=True)
SO = os.path.join(TMP, "fakeclock.so")
subprocess.check_call(["gcc", "-O2", "-shared", "-fPIC", "-o", SO, os.path.join(HERE, "fakeclock.c"), "-ldl"])


def run(flush, second_round=False):
    srv = Server(shards=1, epz=4, ff=2)
    try:
        srv.start(note="(real clock)")
        srv.send(['DEFINE j1evt FIELDS { "n": "int" }',
                  'STORE j1evt FOR ctx-1 PAYLOAD {"n": 1}',
                  'STORE j1evt FOR ctx-2 PAYLOAD {"n": 2}'])
        if flush:
            srv.send(["FLUSH"], wait=1.0)
            time.sleep(1.5)
            wal = [f for f in os.listdir(srv.d + "/wal/shard-0") if f.endswith(".log")]
            sizes = {f: os.path.getsize(srv.d + "/wal/shard-0/" + f) for f in wal}
            srv.history.append("[after FLUSH: WAL logs on disk %s, segment dirs %s]" % (
                sizes, sorted(x for x in os.listdir(srv.d + "/cols/shard-0") if x.isdigit())))
        srv.kill()
        srv.start(extra_env={"LD_PRELOAD": SO, "FAKE_CLOCK_OFFSET_MS": "-60000"}, note="(wall clock 60 s in the past)")
        srv.send(['STORE j1evt FOR ctx-3 PAYLOAD {"n": 3}'])
        want = [1, 2, 3]
        if second_round:
            srv.send(["FLUSH"], wait=1.0)
            time.sleep(1.5)
            srv.kill()
            srv.start(extra_env={"LD_PRELOAD": SO, "FAKE_CLOCK_OFFSET_MS": "-60000"}, note="(wall clock still 60 s in the past)")
            srv.send(['STORE j1evt FOR ctx-4 PAYLOAD {"n": 4}'])
            want = [1, 2, 3, 4]
        resp = srv.send(["QUERY j1evt"], wait=1.0)[0][1]
        rows = [flat(r) for r in parse_rows(resp)]
        got = sorted((int(r["n"]), int(r["event_id"])) for r in rows)
        srv.print_history()
        ids = [i for _, i in got]
        ok = [n for n, _ in got] == want and ids == sorted(ids) and len(set(ids)) == len(want)
        print("observed (n, event_id):", got)
        print("expected: rows n=%s with strictly increasing ids  ->" % want, "ok" if ok else "VIOLATED")
        for k in range(1, len(ids)):
            if ids[k] <= ids[k - 1]:
                print("          id(%d) - id(%d) = %d (= %d ms in the 42-bit timestamp field)" % (
                    got[k][0], got[k - 1][0], ids[k] - ids[k - 1], (ids[k] >> 22) - (ids[k - 1] >> 22)))
        return ok
    finally:
        srv.cleanup()


print("=== History A: ids 1,2 only in the WAL at restart")
a = run(False)
print("=== History B: ids 1,2 only in a flushed segment at restart (WAL pruned)")
b = run(True)
print("=== History C: A continued - FLUSH and a second restart while the clock is still behind")
c = run(False, True)
v = lambda x: "ok" if x else "violated"
print("RESULT:", "PASS" if a and b and c else "FAIL (A %s, B %s, C %s)" % (v(a), v(b), v(c)))
sys.exit(0 if a and b and c else 1)
