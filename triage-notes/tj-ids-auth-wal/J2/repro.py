#!/usr/bin/env python3
"""J2: auth read-modify-write races (C13).
S1: admin connections send GRANT ... TO u<i> in a loop while another admin connection sends REVOKE KEY u<i>
    (answered 200). Afterwards u<i> must be inactive: its signed STORE must be rejected and LIST USERS must
    say inactive - also after a restart (the last auth WAL record wins).
S2: four admin connections send, at the same moment, GRANT READ ON ev<k> TO v<i> for four different event
    types (all answered 200). Afterwards SHOW PERMISSIONS v<i> must list all four.
Up to TRIALS rounds each, stops at the first violation. exit 0 = no violation, 1 = violated."""
import os, sys, threading, time
sys.path.insert(0, os.path.join(os.path.dirname(os.path.abspath(__file__)), "..", "common"))
from harness import Server, AUTH_ON, signed

ADMIN = ("admin", "adminkey")
TRIALS = int(os.environ.get("TRIALS", "40"))
GRANTERS = 6


def ok200(resp):
    return resp.startswith("200") or '"status":200' in resp.replace(" ", "")


def first(resp):
    return (resp.strip().splitlines() or ["<no reply>"])[0][:100]


srv = Server(shards=1, auth=AUTH_ON)
violated = []
try:
    srv.start()
    srv.send(['DEFINE j2evt FIELDS { "n": "int" }'] + ['DEFINE ev%d FIELDS { "n": "int" }' % k for k in range(4)], who=ADMIN)

    # ---------------- S1
    s1 = None
    for i in range(TRIALS):
        u, key = "u%d" % i, "key%d" % i
        srv.send(['CREATE USER %s WITH KEY %s' % (u, key), 'GRANT READ, WRITE ON j2evt TO %s' % u], who=ADMIN)
        stop = threading.Event()
        counts = [0] * GRANTERS

        def granter(k):
            s = srv.connect()
            cmd = signed(ADMIN[0], ADMIN[1], 'GRANT READ ON ev%d TO %s' % (k % 4, u))
            while not stop.is_set():
                s.sendall((cmd + "\n").encode())
                s.settimeout(5)
                try:
                    s.recv(65536)
                except Exception:
                    break
                counts[k] += 1
            s.close()

        ts = [threading.Thread(target=granter, args=(k,)) for k in range(GRANTERS)]
        for t in ts:
            t.start()
        time.sleep(0.05)
        s = srv.connect()
        r_rev = srv.send_on(s, signed(ADMIN[0], ADMIN[1], 'REVOKE KEY %s' % u), 0.2, "admin> REVOKE KEY %s   [while %d admin connections loop GRANT READ ON ev<k> TO %s]" % (u, GRANTERS, u))
        s.close()
        stop.set()
        for t in ts:
            t.join()
        srv.history[-1] += "  (%d GRANTs answered)" % sum(counts)
        r_store = srv.send(['STORE j2evt FOR c1 PAYLOAD {"n": %d}' % i], who=(u, key))[0][1]
        r_list = srv.send(['LIST USERS'], who=ADMIN)[0][1]
        line = [l.strip() for l in r_list.splitlines() if l.strip().startswith(u + ":")]
        if ok200(r_rev) and (ok200(r_store) or (line and "inactive" not in line[0])):
            s1 = (u, key, first(r_rev), first(r_store), line)
            break
    if s1:
        u, key, a, b, line = s1
        srv.kill()
        srv.start(note="(restart)")
        r_store2 = srv.send(['STORE j2evt FOR c1 PAYLOAD {"n": 999}'], who=(u, key))[0][1]
        violated.append("S1")

    # ---------------- S2
    s2 = None
    for i in range(TRIALS):
        v = "v%d" % i
        srv.send(['CREATE USER %s WITH KEY vk%d' % (v, i)], who=ADMIN)
        barrier = threading.Barrier(4)
        replies = [None] * 4

        def one(k):
            s = srv.connect()
            cmd = signed(ADMIN[0], ADMIN[1], 'GRANT READ ON ev%d TO %s' % (k, v))
            barrier.wait()
            s.sendall((cmd + "\n").encode())
            s.settimeout(5)
            try:
                replies[k] = s.recv(65536).decode(errors="replace")
            except Exception:
                replies[k] = ""
            s.close()

        ts = [threading.Thread(target=one, args=(k,)) for k in range(4)]
        for t in ts:
            t.start()
        for t in ts:
            t.join()
        srv.history.append("admin x4 (simultaneously)> GRANT READ ON ev0|ev1|ev2|ev3 TO %s" % v)
        r = srv.send(['SHOW PERMISSIONS FOR %s' % v], who=ADMIN)[0][1]
        have = sorted(k for k in range(4) if ("ev%d" % k) in r)
        if all(ok200(x or "") for x in replies) and have != [0, 1, 2, 3]:
            s2 = (v, have, " | ".join(l.strip() for l in r.strip().splitlines()))
            violated.append("S2")
            break

    # ---------------- report
    h = srv.history
    if len(h) > 60:
        h[:] = h[:12] + ["... (%d lines of earlier rounds omitted)" % (len(h) - 48)] + h[-36:]
    srv.print_history()
    print("observed S1:", ("user %s: REVOKE KEY -> '%s', then %s's STORE -> '%s', LIST USERS line %s; after restart STORE -> '%s'"
                           % (s1[0], s1[2], s1[0], s1[3], s1[4], first(r_store2))) if s1 else "no stale write-back in %d rounds" % TRIALS)
    print("expected S1: after REVOKE KEY returned 200 the user is inactive and its commands are rejected  ->", "VIOLATED" if s1 else "ok")
    print("observed S2:", ("user %s: all four GRANTs -> 200, SHOW PERMISSIONS lists only ev%s: %s" % s2) if s2 else "all four grants present in %d rounds" % TRIALS)
    print("expected S2: all four granted event types listed  ->", "VIOLATED" if s2 else "ok")
    print("RESULT:", "FAIL (%s)" % ", ".join(violated) if violated else "PASS")
    sys.exit(1 if violated else 0)
finally:
    srv.cleanup()
