#!/usr/bin/env python3
"""J3: a key revoked AFTER a torn append to the auth WAL must stay revoked across restarts (C13).
History: start (auth on), admin: DEFINE, CREATE USER bob, GRANT; bob STORE -> 200; kill;
[crash in the middle of an append: a partial frame (len + crc + 20 of 100 payload bytes) is appended to
wal/auth/auth.swal by hand]; restart #1; admin: REVOKE KEY bob -> 200; bob STORE -> rejected;
kill; restart #2; bob STORE -> must still be rejected.
exit 0 = bob rejected after restart #2, 1 = bob's revoked key works again."""
import os, struct, sys, time
sys.path.insert(0, os.path.join(os.path.dirname(os.path.abspath(__file__)), "..", "common"))
from harness import Server, AUTH_ON

ADMIN = ("admin", "adminkey")
BOB = ("bob", "bobkey")


def status(resp):
    first = resp.strip().splitlines()[0] if resp.strip() else "<no reply>"
    return first[:110]


def accepted(resp):
    return '"status":200' in resp.replace(" ", "") or resp.startswith("200")


srv = Server(shards=1, auth=AUTH_ON)
try:
    srv.start()
    obs = []
    for c, r in srv.send(['DEFINE j3evt FIELDS { "n": "int" }', 'CREATE USER bob WITH KEY bobkey',
                          'GRANT READ, WRITE ON j3evt TO bob'], who=ADMIN):
        obs.append(("admin", c, status(r)))
    r = srv.send(['STORE j3evt FOR c1 PAYLOAD {"n": 1}'], who=BOB)[0][1]
    obs.append(("bob", "STORE n=1", status(r)))
    before_ok = accepted(r)
    srv.kill()
    swal = srv.d + "/wal/auth/auth.swal"
    size0 = os.path.getsize(swal)
    with open(swal, "ab") as f:
        f.write(struct.pack("<I", 100) + struct.pack("<I", 0xDEADBEEF) + b"\x5a" * 20)
    srv.history.append("[torn append: 28 bytes (len=100, crc, 20 of 100 payload bytes) appended to auth.swal, %d -> %d bytes]" % (size0, os.path.getsize(swal)))
    srv.start(note="#1")
    r = srv.send(['STORE j3evt FOR c1 PAYLOAD {"n": 2}'], who=BOB)[0][1]
    obs.append(("bob", "STORE n=2 (after restart #1, before revoke)", status(r)))
    r = srv.send(['REVOKE KEY bob'], who=ADMIN)[0][1]
    obs.append(("admin", "REVOKE KEY bob", status(r)))
    revoke_ok = accepted(r)
    r = srv.send(['STORE j3evt FOR c1 PAYLOAD {"n": 3}'], who=BOB)[0][1]
    obs.append(("bob", "STORE n=3 (after revoke)", status(r)))
    rejected_now = not accepted(r)
    size1 = os.path.getsize(swal)
    srv.kill()
    srv.start(note="#2")
    size2 = os.path.getsize(swal)
    r = srv.send(['STORE j3evt FOR c1 PAYLOAD {"n": 4}'], who=BOB)[0][1]
    obs.append(("bob", "STORE n=4 (after restart #2)", status(r)))
    rejected_after = not accepted(r)
    r = srv.send(['LIST USERS'], who=ADMIN)[0][1]
    obs.append(("admin", "LIST USERS (after restart #2)", " | ".join(l.strip()[:160] for l in r.strip().splitlines()[:6])))
    srv.print_history()
    print("observed:")
    for who, c, s in obs:
        print("    %-5s %-45s -> %s" % (who, c, s))
    print("    auth.swal size: %d after revoke, %d after restart #2" % (size1, size2))
    sane = before_ok and revoke_ok and rejected_now
    if not sane:
        print("scenario did not run as intended (setup replies above)")
    ok = sane and rejected_after
    print("expected: bob's STORE after restart #2 is rejected (key revoked)  ->", "ok" if ok else "VIOLATED")
    print("RESULT:", "PASS" if ok else "FAIL")
    sys.exit(0 if ok else 1)
finally:
    srv.cleanup()
