#!/usr/bin/env python3
"""J4: SegmentIndex::recover_from_disk (segments.idx missing / corrupt) must publish only segments that
were published before the crash (C11).  Two on-disk states are built by stopping the server and
copying / truncating files; each is run with segments.idx removed, with segments.idx truncated (corrupt)
and with the intact segments.idx (control). 3 segments per merge (2 left-overs are merged as well).
  S1 half-written flush: 00000 published; the flush of 00001 crashed after <uid>.zones and half of one
     .col file were written (its 7 events are still in the WAL, segments.idx = [00000]).
  S2 retired compaction input: 00000+00001 were compacted into 10000 and retired in segments.idx
     (= [10000]); the crash happened before the retired 00000 / 00001 directories were deleted.
Each run: restart without compaction; QUERY / COUNT; more STOREs until the memtable is full (the flush is the
first load of the index) -> (i) segments.idx must list the segments published before the crash plus the new
one, nothing else; restart with compaction every 1 s, wait 4 s; QUERY / COUNT; stop, delete every segment
directory that segments.idx does not list (what an operator / a start-up driven by segments.idx would do; this
takes the known finding C11.g - live list = directory listing - out of the picture), restart, wait 3 s ->
(ii) QUERY returns every stored event exactly once and COUNT equals the number of stored events;
(iii) compaction runs without errors.
exit 0 = both hold in the recovery runs, 1 = violated."""
import os, shutil, struct, sys, time
sys.path.insert(0, os.path.join(os.path.dirname(os.path.abspath(__file__)), "..", "common"))
from harness import Server, parse_rows, flat


def read_idx(path):
    if not os.path.exists(path):
        return None
    b = open(path, "rb").read()[20:]
    try:
        n = struct.unpack_from("<Q", b, 0)[0]
        o, out = 8, []
        for _ in range(n):
            sid = struct.unpack_from("<I", b, o)[0]; o += 4
            m = struct.unpack_from("<Q", b, o)[0]; o += 8
            for _ in range(m):
                l = struct.unpack_from("<Q", b, o)[0]; o += 8 + l
            out.append("%05d" % sid)
        return sorted(out)
    except Exception as e:
        return "unreadable (%s)" % type(e).__name__


def seg_dirs(sh):
    return sorted(x for x in os.listdir(sh) if x.isdigit())


def stores(a, b):
    return ['STORE j4evt FOR c%d PAYLOAD {"n": %d}' % (i, i) for i in range(a, b)]


def query_ns(srv):
    resp = srv.send(["QUERY j4evt"], wait=1.0)[0][1]
    return sorted(int(flat(r)["n"]) for r in parse_rows(resp) if flat(r).get("n") is not None)


def build_s1():
    """returns (server (stopped), expected n values, published set)"""
    srv = Server(shards=1, epz=4, ff=2, comp_int=3000, spm=2)
    sh, wal = srv.d + "/cols/shard-0", srv.d + "/wal/shard-0"
    srv.start()
    srv.send(['DEFINE j4evt FIELDS { "n": "int" }'] + stores(1, 9), wait=0.15)   # 8 = memtable capacity -> flush 00000
    time.sleep(2.0)
    srv.send(stores(9, 16), wait=0.15)                                          # 7 events, only in the WAL
    time.sleep(0.5)
    srv.kill()
    shutil.copytree(wal, srv.d + "/bk_wal")
    shutil.copy(sh + "/segments.idx", srv.d + "/bk_segments.idx")
    srv.start()
    srv.send(["FLUSH"], wait=1.0)                                               # writes 00001 completely
    time.sleep(2.0)
    srv.kill()
    # turn the clock back to "crash in the middle of the flush of 00001"
    del srv.history[-3:]
    shutil.rmtree(wal); shutil.copytree(srv.d + "/bk_wal", wal)
    shutil.copy(srv.d + "/bk_segments.idx", sh + "/segments.idx")
    kept = []
    for f in sorted(os.listdir(sh + "/00001")):
        p = sh + "/00001/" + f
        if f.endswith(".zones"):
            kept.append(f)
        elif f.endswith("_context_id.col"):
            os.truncate(p, os.path.getsize(p) // 2); kept.append(f + " (first half)")
        else:
            os.remove(p)
    srv.history.append("[state S1 built: flush of 00001 interrupted - 00001 holds only %s; WAL logs %s; segments.idx = %s]"
                       % (kept, sorted(os.listdir(wal)), read_idx(sh + "/segments.idx")))
    return srv, list(range(1, 16)), ["00000"], 1


def build_s2():
    srv = Server(shards=1, epz=4, ff=2, comp_int=3000, spm=2)
    sh = srv.d + "/cols/shard-0"
    srv.start()
    srv.send(['DEFINE j4evt FIELDS { "n": "int" }'] + stores(1, 9), wait=0.15)
    time.sleep(2.0)
    srv.send(stores(9, 17), wait=0.15)
    time.sleep(2.0)
    srv.kill()
    for d in ("00000", "00001"):
        shutil.copytree(sh + "/" + d, srv.d + "/bk_" + d)
    srv.params["comp_int"] = 1
    srv.start(note="(compaction every 1 s)")
    for _ in range(40):
        time.sleep(0.25)
        if seg_dirs(sh) == ["10000"]:
            break
    time.sleep(0.5)
    srv.kill()
    srv.history.append("[after compaction: segment dirs %s, segments.idx = %s]" % (seg_dirs(sh), read_idx(sh + "/segments.idx")))
    for d in ("00000", "00001"):
        shutil.copytree(srv.d + "/bk_" + d, sh + "/" + d)
    srv.history.append("[state S2 built: retired inputs 00000, 00001 put back (crash before they were deleted): dirs %s, segments.idx = %s]"
                       % (seg_dirs(sh), read_idx(sh + "/segments.idx")))
    return srv, list(range(1, 17)), ["10000"], 8


def count_of(srv):
    resp = srv.send(["QUERY j4evt COUNT"], wait=1.0)[0][1]
    rows = parse_rows(resp)
    try:
        return int(list(rows[0].values())[-1])
    except Exception:
        return "unparsed: " + resp.strip()[:80]


def run_variant(build, variant, verbose):
    srv, want, published, n_new = build()
    sh = srv.d + "/cols/shard-0"
    try:
        srv.params["spm"] = 3
        if variant == "missing":
            os.remove(sh + "/segments.idx"); srv.history.append("[segments.idx removed]")
        elif variant == "corrupt":
            os.truncate(sh + "/segments.idx", 25); srv.history.append("[segments.idx truncated to 25 bytes]")
        srv.params["comp_int"] = 3000
        srv.start(note="(no compaction)")
        ns0, c0 = query_ns(srv), count_of(srv)
        before = set(seg_dirs(sh))
        srv.send(stores(101, 101 + n_new), wait=0.15)
        time.sleep(2.0)
        new = sorted(set(seg_dirs(sh)) - before)
        idx1 = read_idx(sh + "/segments.idx")
        srv.history.append("[memtable full: flush wrote %s; segments.idx = %s]" % (new, idx1))
        srv.kill()
        srv.params["comp_int"] = 1
        srv.start(note="(compaction every 1 s)")
        time.sleep(4.0)
        ns2, c2 = query_ns(srv), count_of(srv)
        idx2, dirs2 = read_idx(sh + "/segments.idx"), seg_dirs(sh)
        srv.history.append("[4 s later: segments.idx = %s, segment dirs %s]" % (idx2, dirs2))
        srv.kill()
        orphans = [d for d in dirs2 if not (isinstance(idx2, list) and d in idx2)]
        for d in orphans:
            shutil.rmtree(sh + "/" + d)
        srv.history.append("[deleted the segment directories that segments.idx does not list: %s]" % orphans)
        mark = len(open(srv.d + "/server.log", errors="replace").read().splitlines())
        srv.start(note="(compaction every 1 s)")
        time.sleep(3.0)
        ns3, c3 = query_ns(srv), count_of(srv)
        idx3, dirs3 = read_idx(sh + "/segments.idx"), seg_dirs(sh)
        srv.history.append("[3 s later: segments.idx = %s, segment dirs %s]" % (idx3, dirs3))
        srv.kill()
        log = open(srv.d + "/server.log", errors="replace").read().splitlines()[mark:]
        errs = [l for l in log if "ERROR" in l and "ompaction" in l]
        if verbose:
            srv.print_history()
        want1 = want + list(range(101, 101 + n_new))
        unpublished = [s_ for s_ in (idx1 if isinstance(idx1, list) else []) if s_ not in published + new]
        ok_i = isinstance(idx1, list) and not unpublished

        def rows(ns, w):
            dup = sorted(set(n for n in ns if ns.count(n) > 1))
            mis = sorted(set(w) - set(ns))
            return "%d rows / %d events%s%s" % (len(ns), len(w), ", twice: n=%s" % dup if dup else "", ", missing: n=%s" % mis if mis else "")
        ok_ii = ns3 == want1 and c3 == len(want1)
        ok_iii = not errs
        tag = "[%-7s]" % variant
        print("  %s (i)   segments.idx after the first load: %s; published before the crash %s + new %s -> %s" % (
            tag, idx1, published, new, "ok" if ok_i else "VIOLATED: also lists %s" % unpublished))
        print("  %s       after restart    : QUERY %s; COUNT %s (expected %d)" % (tag, rows(ns0, want), c0, len(want)))
        print("  %s       after compaction : QUERY %s; COUNT %s (expected %d); segments.idx %s, dirs %s" % (
            tag, rows(ns2, want1), c2, len(want1), idx2, dirs2))
        print("  %s (ii)  unlisted dirs %s deleted, restarted: QUERY %s; COUNT %s (expected %d); segments.idx %s, dirs %s -> %s" % (
            tag, orphans, rows(ns3, want1), c3, len(want1), idx3, dirs3, "ok" if ok_ii else "VIOLATED"))
        print("  %s (iii) compaction errors in the last run: %d%s -> %s" % (
            tag, len(errs), (", last: ..." + errs[-1][-170:]) if errs else "", "ok" if ok_iii else "VIOLATED"))
        return ok_i, ok_ii, ok_iii
    finally:
        srv.cleanup()


bad = False
for name, build in (("S1 half-written flush directory", build_s1), ("S2 retired compaction inputs not yet deleted", build_s2)):
    print("=== " + name)
    res = {}
    for v in ("missing", "corrupt", "control"):
        res[v] = run_variant(build, v, v == "missing")
    if not all(res["missing"]) or not all(res["corrupt"]):
        bad = True
    print("  (control = same directory state with segments.idx intact: %s)" % ("all ok" if all(res["control"]) else "NOT ok %s" % (res["control"],)))
print("RESULT:", "FAIL" if bad else "PASS")
sys.exit(1 if bad else 0)
