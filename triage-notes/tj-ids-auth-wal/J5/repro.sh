#!/usr/bin/env bash
# J5: WalCleaner::with_wal_dir(shard, dir) in conservative mode must not delete logs of `dir` that were
# never archived. Unit-level: a throw-away example program (j5_probe.rs) calling the public functions.
# usage: repro.sh [repo]   (default /var/tmp/tj/repo; CARGO_TARGET_DIR default /var/tmp/tj/target)
# exit 0 = correct, 1 = violated, 2 = could not build
set -u
HERE="$(cd "$(dirname "$0")" && pwd)"
REPO="${1:-/var/tmp/tj/repo}"
export CARGO_TARGET_DIR="${CARGO_TARGET_DIR:-/var/tmp/tj/target}"
TMP="$(mktemp -d /var/tmp/tj/run/j5.XXXXXX)"
cleanup() { rm -rf "$TMP" "$REPO/examples/j5_probe.rs"; rmdir "$REPO/examples" 2>/dev/null; }
trap cleanup EXIT
mkdir -p "$REPO/examples" && cp "$HERE/j5_probe.rs" "$REPO/examples/j5_probe.rs"
sed -e "s#@D@#$TMP#g" > "$TMP/cfg.toml" <<'CFG'
[wal]
enabled = true
fsync = false
buffered = false
buffer_size = "1KB"
dir = "@D@/wal/"
flush_each_write = true
fsync_every_n = 1
conservative_mode = true
archive_dir = "@D@/archived/"
compression_level = 3
compression_algorithm = "zstd"
[engine]
fill_factor = 2
data_dir = "@D@/cols"
index_dir = "@D@/index/"
shard_count = 1
event_per_zone = 4
compaction_interval = 3000
sys_io_threshold = 100000
sys_memory_threshold_mb = "1MB"
max_inflight_passives = 8
segments_per_merge = 2
compaction_max_shard_concurrency = 1
[schema]
def_dir="@D@/schema/"
[server]
socket_path = "@D@/sock"
log_level = "error"
output_format = "json"
tcp_addr = "127.0.0.1:1"
http_addr = "127.0.0.1:2"
ws_addr = "127.0.0.1:3"
auth_token = "t"
[playground]
enabled = false
allow_unauthenticated = true
[auth]
bypass_auth = true
rate_limit_enabled = false
[logging]
log_dir = "@D@/logs"
stdout_level = "error"
file_level = "error"
[query]
zone_index_cache_max_entries = 256
column_block_cache_max_bytes = "64MB"
zone_surf_cache_max_bytes = "10MB"
[time]
timezone = "UTC"
week_start = "Mon"
use_calendar_bucketing = true
CFG
( cd "$REPO" && cargo build --offline --example j5_probe ) > "$TMP/build.log" 2>&1 || { tail -20 "$TMP/build.log"; exit 2; }
echo "command: SNELDB_CONFIG=<cfg with conservative_mode = true> $CARGO_TARGET_DIR/debug/examples/j5_probe $TMP"
SNELDB_CONFIG="$TMP/cfg.toml" RUST_LOG=error "$CARGO_TARGET_DIR/debug/examples/j5_probe" "$TMP" 2>&1 | sed -e "s#$TMP#<tmp>#g"
rc=${PIPESTATUS[0]}
rm -f "$CARGO_TARGET_DIR"/debug/examples/j5_probe*   # ~300 MB each, disk is tight
exit $rc
