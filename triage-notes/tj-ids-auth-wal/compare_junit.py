#!/usr/bin/env python3
"""compare_junit.py BASE.xml NEW.xml -> prints the difference of the failing sets (exit 0 if identical)"""
import sys, xml.etree.ElementTree as ET
def load(p):
    allt, fail = set(), set()
    for tc in ET.parse(p).getroot().iter('testcase'):
        k = tc.attrib.get('classname', '') + '::' + tc.attrib['name']
        allt.add(k)
        if tc.find('failure') is not None or tc.find('error') is not None:
            fail.add(k)
    return allt, fail
a, fa = load(sys.argv[1]); b, fb = load(sys.argv[2])
print("base: %d tests, %d failed; new: %d tests, %d failed" % (len(a), len(fa), len(b), len(fb)))
print("tests only in base:", sorted(a - b)); print("tests only in new:", sorted(b - a))
print("newly failing:", sorted(fb - fa)); print("newly passing:", sorted(fa - fb))
sys.exit(0 if fa == fb and a == b else 1)
