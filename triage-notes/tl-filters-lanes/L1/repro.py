#!/usr/bin/env python3
"""L1: conditions on a bool field.  python3 repro.py  (exit 0 = correct, 1 = violated)"""
import os, sys
sys.path.insert(0, os.path.join(os.path.dirname(os.path.abspath(__file__)), ".."))
from common import run_case, finish

SETUP = [
    'DEFINE ev FIELDS { "b": "bool", "k": "int" }',
    'STORE ev FOR c1 PAYLOAD {"b":true,"k":1}',
    'STORE ev FOR c2 PAYLOAD {"b":false,"k":2}',
    'STORE ev FOR c3 PAYLOAD {"b":true,"k":3}',
    'STORE ev FOR c4 PAYLOAD {"b":false,"k":4}',
    'STORE ev FOR c5 PAYLOAD {"b":false,"k":5}',   # event_per_zone = 4: a second zone without `true`
]
T, F = [1, 3], [2, 4, 5]
QUERIES = [
    ('QUERY ev', T + F),
    ('QUERY ev WHERE b = true', T),
    ('QUERY ev WHERE b = false', F),
    ('QUERY ev WHERE b != true', F),
    ('QUERY ev WHERE b != false', T),
    ('QUERY ev WHERE b = "true"', T),
    ('QUERY ev WHERE b IN (true)', T),
    ('QUERY ev WHERE b = false AND k > 2', [4, 5]),
    # bare field = the only way the grammar produces a JSON bool literal (Expr::Compare{b, Eq, Bool(true)})
    ('QUERY ev WHERE b', T),
    # after FLUSH `NOT <leaf>` additionally hits the separate, known zone-complement defect
    # (ZoneGroupCollector::handle_not complements a may-set; pinned by the test
    # zone_group_collector_handles_not_operation) -> checked in memory only, reported after FLUSH
    ('QUERY ev WHERE NOT b', {"mem": F, "flush": None}),
    ('QUERY ev WHERE b AND k > 1', [3]),
]
finish(run_case("L1 bool conditions", SETUP, QUERIES))
