//! L2 pruner-level probe (throw-away integration test; adapted from c08_unmodified_probe.rs).
//! Copied into <repo>/tests/ by pruner_probe.sh; fails when a pruner drops a zone that holds a match.
use serde_json::json;
use snel_db::command::types::CompareOp;
use snel_db::engine::core::zone::selector::pruner::range_pruner::RangePruner;
use snel_db::engine::core::zone::selector::pruner::{PruneArgs, TemporalPruner};
use snel_db::engine::core::zone::zone_artifacts::ZoneArtifacts;
use snel_db::engine::core::{Event, ZonePlan, ZoneWriter};
use snel_db::engine::schema::FieldType;
use snel_db::engine::schema::registry::{MiniSchema, SchemaRegistry};
use snel_db::engine::types::ScalarValue;
use std::collections::HashMap;
use std::sync::Arc;
use tokio::sync::RwLock;

fn event(event_type: &str, ctx: &str, ts: u64, payload: serde_json::Value) -> Event {
    serde_json::from_value(json!({
        "event_type": event_type, "context_id": ctx, "timestamp": ts, "payload": payload
    }))
    .unwrap()
}

#[tokio::test]
async fn probes() {
    let tmp = tempfile::tempdir().unwrap();
    let registry = Arc::new(RwLock::new(
        SchemaRegistry::new_with_path(tmp.path().join("schemas.bin")).unwrap(),
    ));
    let et = "probe_evt";
    let mut fields = HashMap::new();
    fields.insert("n".to_string(), FieldType::I64);
    fields.insert("score".to_string(), FieldType::F64);
    fields.insert("due_at".to_string(), FieldType::Timestamp);
    registry.write().await.define(et, MiniSchema { fields }).unwrap();
    let uid = registry.read().await.get_uid(et).unwrap();

    // zone 0: n = 5, 10 ; score = 1e19, 2.0 ; due_at = 1_700_000_000, 1_700_000_100
    // zone 1: n = -3, -1 ; score = -1.0, -2.0 ; due_at = 1_600_000_000, 1_600_000_100
    let events = vec![
        event(et, "a", 1, json!({"n": 5, "score": 1e19, "due_at": 1_700_000_000i64})),
        event(et, "b", 2, json!({"n": 10, "score": 2.0, "due_at": 1_700_000_100i64})),
        event(et, "c", 3, json!({"n": -3, "score": -1.0, "due_at": 1_600_000_000i64})),
        event(et, "d", 4, json!({"n": -1, "score": -2.0, "due_at": 1_600_000_100i64})),
    ];
    println!("payload[0] = {:?}", events[0].payload);
    let base_dir = tmp.path().join("shard-0");
    let seg = "00001";
    let seg_dir = base_dir.join(seg);
    std::fs::create_dir_all(&seg_dir).unwrap();
    let plans = ZonePlan::build_all(&events, 2, uid.clone(), 1).unwrap();
    ZoneWriter::new(&uid, &seg_dir, registry.clone()).write_all(&plans).await.unwrap();
    for f in std::fs::read_dir(&seg_dir).unwrap() {
        println!("file {:?}", f.unwrap().file_name());
    }

    let rp = RangePruner { artifacts: ZoneArtifacts::new(&base_dir, None) };
    let tp = TemporalPruner { artifacts: ZoneArtifacts::new(&base_dir, None) };
    // None = "cannot prune" (caller scans every zone) is always acceptable
    let bad = std::cell::RefCell::new(Vec::<String>::new());
    let show = |name: &str, must: &[u32], r: Option<Vec<snel_db::engine::core::CandidateZone>>| {
        let got = r.map(|v| { let mut z = v.into_iter().map(|c| c.zone_id).collect::<Vec<_>>(); z.sort(); z });
        let ok = match &got { None => true, Some(z) => must.iter().all(|m| z.contains(m)) };
        println!("{} -> {:?}  must keep {:?}  {}", name, got, must, if ok { "ok" } else { "VIOLATED" });
        if !ok { bad.borrow_mut().push(name.to_string()); }
    };

    // (2) u64 literal >= 2^63 against an i64 column
    let lit = ScalarValue::from(json!(9223372036854775808u64));
    println!("literal = {:?}", lit);
    show("n < 9223372036854775808 (expected {0,1})", &[0,1], rp.apply_surf_only(&PruneArgs {
        segment_id: seg, uid: &uid, column: "n", value: Some(&lit), op: Some(&CompareOp::Lt) }));
    show("n <= 9223372036854775808 (expected {0,1})", &[0,1], rp.apply_surf_only(&PruneArgs {
        segment_id: seg, uid: &uid, column: "n", value: Some(&lit), op: Some(&CompareOp::Lte) }));

    // (3) float column holding an integral value >= 2^63
    let lit = ScalarValue::Float64(8e17);
    show("score > 8e17 (expected {0})", &[0], rp.apply_surf_only(&PruneArgs {
        segment_id: seg, uid: &uid, column: "score", value: Some(&lit), op: Some(&CompareOp::Gt) }));
    let lit = ScalarValue::Int64(800_000_000_000_000_000);
    show("score >= 800000000000000000 (expected {0})", &[0], rp.apply_surf_only(&PruneArgs {
        segment_id: seg, uid: &uid, column: "score", value: Some(&lit), op: Some(&CompareOp::Gte) }));

    // (1) float literal against a datetime column
    let lit = ScalarValue::Float64(1_700_000_050.5);
    show("due_at <= 1700000050.5 (expected {0,1})", &[0,1], tp.apply_temporal_only(&PruneArgs {
        segment_id: seg, uid: &uid, column: "due_at", value: Some(&lit), op: Some(&CompareOp::Lte) }));
    show("due_at < 1700000050.5 (expected {0,1})", &[0,1], tp.apply_temporal_only(&PruneArgs {
        segment_id: seg, uid: &uid, column: "due_at", value: Some(&lit), op: Some(&CompareOp::Lt) }));
    let lit = ScalarValue::Float64(1_700_000_000.0);
    show("due_at = 1700000000.0 (expected {0})", &[0], tp.apply_temporal_only(&PruneArgs {
        segment_id: seg, uid: &uid, column: "due_at", value: Some(&lit), op: Some(&CompareOp::Eq) }));
    assert!(bad.borrow().is_empty(), "zones holding matching rows were pruned: {:?}", bad.borrow());
}
