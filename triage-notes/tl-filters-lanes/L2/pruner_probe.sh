#!/bin/bash
# L2 pruner-level repro: exit 0 = no pruner drops a zone holding a match, 1 = violated.
# usage: pruner_probe.sh [repo dir]   (default /var/tmp/tl/repo; CARGO_TARGET_DIR default /var/tmp/tl/target)
REPO=${1:-/var/tmp/tl/repo}
export CARGO_TARGET_DIR=${CARGO_TARGET_DIR:-/var/tmp/tl/target}
export RUST_BACKTRACE=0
HERE=$(cd "$(dirname "$0")" && pwd)
cp "$HERE/pruner_probe.rs" "$REPO/tests/tl_l2_pruner_probe.rs"
LOG=$(mktemp)
(cd "$REPO" && cargo test --offline --test tl_l2_pruner_probe -- --nocapture) > "$LOG" 2>&1
rc=$?
rm -f "$REPO/tests/tl_l2_pruner_probe.rs"
grep -E "^(payload|literal|n |score |due_at |thread|zones holding|test |error)" "$LOG"
rm -f "$LOG"
if [ "$rc" = 0 ]; then echo "RESULT: correct"; exit 0; else echo "RESULT: VIOLATED"; exit 1; fi
