#!/usr/bin/env python3
"""L2: range / temporal pruner lanes, end to end over TCP.  python3 repro.py  (exit 0 = correct, 1 = violated)

event_per_zone = 4, so with 1 shard the first four STOREs form zone 0 and the last two zone 1.
The in-memory placements are the reference: the pruners only run after FLUSH.
"""
import os, sys
sys.path.insert(0, os.path.join(os.path.dirname(os.path.abspath(__file__)), ".."))
from common import run_case, finish

ok = True

# --- a) literal >= 2^63 against an int field --------------------------------------------------
# `n < 9223372036854775808` itself is rejected by the grammar ("integer out of range"); the same
# literal is delivered as ScalarValue::Utf8 by quoting it (and as Float64 by writing `.0`).
A_SETUP = [
    'DEFINE ev FIELDS { "n": "int", "k": "int" }',
    'STORE ev FOR c1 PAYLOAD {"n":5,"k":1}',
    'STORE ev FOR c2 PAYLOAD {"n":10,"k":2}',
    'STORE ev FOR c3 PAYLOAD {"n":7,"k":3}',
    'STORE ev FOR c4 PAYLOAD {"n":8,"k":4}',
    'STORE ev FOR c5 PAYLOAD {"n":-3,"k":5}',
    'STORE ev FOR c6 PAYLOAD {"n":-1,"k":6}',
]
ALL = [1, 2, 3, 4, 5, 6]
A_QUERIES = [
    ('QUERY ev WHERE n < 9223372036854775808', None),            # parse error: reported only
    ('QUERY ev WHERE n < "9223372036854775808"', ALL),
    ('QUERY ev WHERE n <= "9223372036854775808"', ALL),
    # u64::MAX is no i64 and no epoch either: the row filter falls back to a *string* condition, whose
    # `<` is always false (in memory too) - a row-filter limitation, not the pruner: reported only
    ('QUERY ev WHERE n < "18446744073709551615"', None),
    ('QUERY ev WHERE n > "9223372036854775808"', []),
    ('QUERY ev WHERE n < 10000000000000000000.0', ("superset", ALL)),   # Float64 1e19 -> raw u64 lane
    ('QUERY ev WHERE n < 9', [1, 3, 4, 5, 6]),                          # control: must keep working
    ('QUERY ev WHERE n > 7', [2, 4]),
]
ok = run_case("L2a u64-range literal against an int field", A_SETUP, A_QUERIES) and ok

# --- b) float field holding integral values >= 2^63 --------------------------------------------
# exponent literals (`8e17`) are not in the grammar; the i64 literal 800000000000000000 is.
# In memory a float field is only compared through the i64 view (known finding C02.j), so the
# in-memory placements are reported only; after FLUSH the row filter is right and only the pruner
# decides.
B_SETUP = [
    'DEFINE ev FIELDS { "score": "float", "k": "int" }',
    'STORE ev FOR c1 PAYLOAD {"score":1e19,"k":1}',
    'STORE ev FOR c2 PAYLOAD {"score":9.5e18,"k":2}',
    'STORE ev FOR c3 PAYLOAD {"score":1e19,"k":3}',
    'STORE ev FOR c4 PAYLOAD {"score":2.0,"k":4}',
    'STORE ev FOR c5 PAYLOAD {"score":-1.0,"k":5}',
    'STORE ev FOR c6 PAYLOAD {"score":-2.0,"k":6}',
]
B_QUERIES = [
    ('QUERY ev WHERE score >= 800000000000000000', {"mem": None, "flush": [1, 2, 3]}),
    ('QUERY ev WHERE score > 800000000000000000', {"mem": None, "flush": [1, 2, 3]}),
    ('QUERY ev WHERE score > 800000000000000000.0', {"mem": None, "flush": ("superset", [1, 2, 3])}),
    ('QUERY ev WHERE score < 0', {"mem": None, "flush": [5, 6]}),           # control
    ('QUERY ev WHERE score > 1', {"mem": None, "flush": [1, 2, 3, 4]}),     # control
    ('QUERY ev WHERE score < 800000000000000000', {"mem": None, "flush": [4, 5, 6]}),  # control
]
ok = run_case("L2b float field with integral values >= 2^63", B_SETUP, B_QUERIES) and ok

# --- c) float literal against a datetime field ---------------------------------------------------
# A fractional / `.0` literal adds no row condition at all (known finding C02.i: every row of the
# scanned zones is returned), so only the pruning property is checked: the rows that truly match
# must still be there after FLUSH.
C_SETUP = [
    'DEFINE ev FIELDS { "due_at": "datetime", "k": "int" }',
    'STORE ev FOR c1 PAYLOAD {"due_at":1700000000,"k":1}',
    'STORE ev FOR c2 PAYLOAD {"due_at":1700000100,"k":2}',
    'STORE ev FOR c3 PAYLOAD {"due_at":1700000000,"k":3}',
    'STORE ev FOR c4 PAYLOAD {"due_at":1700000100,"k":4}',
    'STORE ev FOR c5 PAYLOAD {"due_at":1600000000,"k":5}',
    'STORE ev FOR c6 PAYLOAD {"due_at":1600000100,"k":6}',
]
C_QUERIES = [
    ('QUERY ev WHERE due_at <= 1700000050.5', ("superset", [1, 3, 5, 6])),
    ('QUERY ev WHERE due_at < 1700000050.5', ("superset", [1, 3, 5, 6])),
    ('QUERY ev WHERE due_at = 1700000000.0', ("superset", [1, 3])),
    ('QUERY ev WHERE due_at >= 1650000000.5', ("superset", [1, 2, 3, 4])),
    ('QUERY ev WHERE due_at <= 1700000050', [1, 3, 5, 6]),                  # control: int literal
    ('QUERY ev WHERE due_at = 1700000000', [1, 3]),                          # control
]
ok = run_case("L2c float literal against a datetime field", C_SETUP, C_QUERIES) and ok
finish(ok)
