#!/usr/bin/env python3
"""L3: u64 field compared with a negative literal.  python3 repro.py  (exit 0 = correct, 1 = violated)"""
import os, sys
sys.path.insert(0, os.path.join(os.path.dirname(os.path.abspath(__file__)), ".."))
from common import run_case, finish

SETUP = [
    'DEFINE ev FIELDS { "u": "u64", "k": "int" }',
    'STORE ev FOR c1 PAYLOAD {"u":0,"k":1}',
    'STORE ev FOR c2 PAYLOAD {"u":7,"k":2}',
    'STORE ev FOR c3 PAYLOAD {"u":100,"k":3}',
    'STORE ev FOR c4 PAYLOAD {"u":8,"k":4}',
    'STORE ev FOR c5 PAYLOAD {"u":9,"k":5}',
]
ALL = [1, 2, 3, 4, 5]
# A negative bound is below every unsigned value: > >= != keep everything, < <= = keep nothing.
QUERIES = [
    ('QUERY ev WHERE u > -1', ALL),
    ('QUERY ev WHERE u >= -5', ALL),
    ('QUERY ev WHERE u != -1', ALL),
    ('QUERY ev WHERE u < -1', []),
    ('QUERY ev WHERE u <= -1', []),
    ('QUERY ev WHERE u = -1', []),
    ('QUERY ev WHERE u IN (-1, 7)', [2]),
    ('QUERY ev WHERE u > 7', [3, 4, 5]),      # controls
    ('QUERY ev WHERE u >= 0', ALL),
    ('QUERY ev WHERE u != 7', [1, 3, 4, 5]),
    # Inside AND / OR / NOT the condition is evaluated row by row through
    # NumericCondition::evaluate_at, whose `negative bound -> false` is asserted by the passing test
    # numeric_condition_evaluate_at_prefers_u64_and_handles_negative: not patched, reported after FLUSH
    ('QUERY ev WHERE u > -1 AND k > 2', {"mem": [3, 4, 5], "flush": None}),
]
finish(run_case("L3 u64 field vs negative literal", SETUP, QUERIES))
