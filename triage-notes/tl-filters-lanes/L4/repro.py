#!/usr/bin/env python3
"""L4b: TemporalPruner on the `timestamp` column when the calendar cannot be loaded (fault injection:
the <uid>_timestamp.cal artifact of the flushed segment is removed before the first query touches it).
For a schema datetime field the same fault makes the pruner answer 'cannot prune' (None) and every
zone is scanned; for `timestamp` it answers Some([]) and the segment's rows disappear.
python3 repro.py   (exit 0 = correct, 1 = violated)"""
import glob, os, sys, time
sys.path.insert(0, os.path.join(os.path.dirname(os.path.abspath(__file__)), ".."))
import common  # noqa: F401  (sets SNEL_BIN / TF_TMP defaults)
import harness

SETUP = ['DEFINE ev FIELDS { "due_at": "datetime", "k": "int" }'] + [
    'STORE ev FOR c%d PAYLOAD {"due_at":%d,"k":%d}' % (i, 1700000000 + i, i) for i in range(1, 7)]
ALL = [1, 2, 3, 4, 5, 6]
ok = True
for shards in (1, 2):
    for victim, queries in (
        ("timestamp", ['QUERY ev WHERE timestamp >= 5', 'QUERY ev WHERE timestamp > 5', 'QUERY ev SINCE 5',
                       'QUERY ev WHERE timestamp <= 99999999999', 'QUERY ev']),
        ("due_at", ['QUERY ev WHERE due_at >= 5', 'QUERY ev WHERE due_at <= 99999999999', 'QUERY ev']),
    ):
        srv = harness.Server(shards)
        try:
            print("=== %d shard(s): history" % shards)
            for c in SETUP + ["FLUSH"]:
                print("   ", c)
            srv.send(SETUP + ["FLUSH"], wait=0.15)
            time.sleep(1.0)
            gone = glob.glob(srv.d + "/cols/shard-*/*/*_%s.cal" % victim)
            for f in gone:
                os.remove(f)
            print("    [removed %d file(s) *_%s.cal from the flushed segment(s)]" % (len(gone), victim))
            for q in queries:
                _, resp = srv.send([q], wait=0.6)[0]
                observed = sorted(harness.flat(r).get("k") for r in harness.parse_rows(resp))
                good = observed == ALL
                print("    %s\n        observed k=%s expected %s -> %s" % (q, observed, ALL, "ok" if good else "VIOLATED"))
                ok = ok and good
        finally:
            srv.stop()
common.finish(ok)
