//! L4a probe (throw-away integration test, copied into <repo>/tests/ by zxf_probe.sh).
//! 1) Can BinaryFuse8 construction fail for the inputs build_for_field hands it?  Zones full of
//!    duplicates, zones of 1 / 2 / 3 values, large zones, several value shapes: every zone that has
//!    a value must come back with a filter, and every stored value must be reported by
//!    zones_maybe_containing for its zone.
//! 2) What would a missing zone filter mean?  An index that has a filter for zone 0 only never
//!    reports zone 1 (XorPruner::apply_zone_index_only turns that into Some([zone 0])).
use serde_json::json;
use snel_db::engine::core::zone::zone_xor_index::ZoneXorFilterIndex;
use snel_db::engine::core::{Event, ZonePlan};
use snel_db::engine::types::ScalarValue;

fn event(i: u64, payload: serde_json::Value) -> Event {
    serde_json::from_value(json!({
        "event_type": "probe_evt", "context_id": format!("c{i}"), "timestamp": i, "payload": payload
    }))
    .unwrap()
}

fn value(shape: usize, i: u64) -> serde_json::Value {
    match shape {
        0 => json!(i),                                        // small ints
        1 => json!(format!("user-{:08}", i)),                 // ids
        2 => json!(i as f64 * 0.25),                          // floats
        3 => json!(i % 3),                                    // 3 distinct values, heavy duplication
        4 => json!(format!("{:x}-{:x}", i.wrapping_mul(0x9E3779B97F4A7C15), i)), // uuid-ish
        _ => json!(i % 2 == 0),                               // bool
    }
}

#[test]
fn zxf_construction_never_loses_a_zone() {
    let mut constructions = 0usize;
    let mut lost: Vec<String> = Vec::new();
    for shape in 0..6usize {
        for &rows_per_zone in &[1usize, 2, 3, 4, 7, 64, 1000, 20000] {
            let zones = if rows_per_zone <= 64 { 1500 } else { 5 };
            let n = (rows_per_zone * zones).min(100000) as u64;
            let events: Vec<Event> = (0..n).map(|i| event(i, json!({ "f": value(shape, i) }))).collect();
            let plans = ZonePlan::build_all(&events, rows_per_zone, "uid".to_string(), 1).unwrap();
            let idx = ZoneXorFilterIndex::build_for_field("uid", "f", &plans).expect("index");
            for zp in &plans {
                constructions += 1;
                if !idx.filters.contains_key(&zp.id) {
                    lost.push(format!("shape {shape} rows/zone {rows_per_zone} zone {}", zp.id));
                    continue;
                }
                for ev in zp.events.iter().take(50) {
                    let v: &ScalarValue = ev.payload.get("f").unwrap();
                    assert!(idx.zones_maybe_containing(v).contains(&zp.id), "false negative");
                }
            }
        }
    }
    println!("zone filter constructions attempted: {constructions}; zones without a filter: {}", lost.len());
    assert!(lost.is_empty(), "zones without a filter: {:?}", lost);
}

#[test]
fn a_zone_without_filter_is_never_reported() {
    // zone 0 and zone 1 both hold "x"; pretend the construction for zone 1 failed
    let events: Vec<Event> = (0..4).map(|i| event(i, json!({ "f": "x" }))).collect();
    let plans = ZonePlan::build_all(&events, 2, "uid".to_string(), 1).unwrap();
    let mut idx = ZoneXorFilterIndex::build_for_field("uid", "f", &plans).unwrap();
    idx.filters.remove(&1);
    let zones = idx.zones_maybe_containing(&ScalarValue::Utf8("x".into()));
    println!("index with a filter for zone 0 only reports {:?} for f = \"x\" (zone 1 holds it too)", zones);
    assert_eq!(zones, vec![0]); // documents the consequence: zone 1 would be pruned
}
