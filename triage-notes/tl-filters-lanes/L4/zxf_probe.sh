#!/bin/bash
# L4a: exit 0 = every zone gets its .zxf filter for realistic inputs (item not reproducible), 1 = a zone lost its filter.
REPO=${1:-/var/tmp/tl/repo}
export CARGO_TARGET_DIR=${CARGO_TARGET_DIR:-/var/tmp/tl/target}
export RUST_BACKTRACE=0
HERE=$(cd "$(dirname "$0")" && pwd)
cp "$HERE/zxf_probe.rs" "$REPO/tests/tl_l4_zxf_probe.rs"
LOG=$(mktemp)
(cd "$REPO" && cargo test --offline --test tl_l4_zxf_probe -- --nocapture --test-threads 1) > "$LOG" 2>&1
rc=$?
rm -f "$REPO/tests/tl_l4_zxf_probe.rs"
grep -E "^(zone filter|index with|thread|zones without|test |error)" "$LOG"
rm -f "$LOG"
if [ "$rc" = 0 ]; then echo "RESULT: correct (construction never failed)"; exit 0; else echo "RESULT: VIOLATED"; exit 1; fi
