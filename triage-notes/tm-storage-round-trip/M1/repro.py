#!/usr/bin/env python3
"""M1: a null in an optional STRING field must survive FLUSH as null (not "").

One server, event_per_zone=2, fill_factor=100 (no auto flush).  Contexts are chosen so that
the flush puts the events into three zones:
  zone A (ctx a): os="linux"      , os=null (explicit)      -> case 'explicit null'
  zone B (ctx b): os="mac"        , os omitted              -> case 'omitted'
  zone C (ctx c): os omitted      , os omitted              -> case 'no event of the zone has it'
  zone D (ctx d): os=""           , os="x"                  -> control: a real empty string
The value of `os` per event (keyed by n) is read before FLUSH (memtable) and after FLUSH
(segment) and must be identical.
exit 0 = correct, 1 = violated.
"""
import os, sys, time
sys.path.insert(0, os.path.join(os.path.dirname(os.path.abspath(__file__)), "..", "common"))
from harness import Server, parse_rows, flat, show

SETUP = [
    'DEFINE m1 FIELDS {"os":"string | null","n":"int"}',
    'STORE m1 FOR a PAYLOAD {"os":"linux","n":1}',
    'STORE m1 FOR a PAYLOAD {"os":null,"n":2}',
    'STORE m1 FOR b PAYLOAD {"os":"mac","n":3}',
    'STORE m1 FOR b PAYLOAD {"n":4}',
    'STORE m1 FOR c PAYLOAD {"n":5}',
    'STORE m1 FOR c PAYLOAD {"n":6}',
    'STORE m1 FOR d PAYLOAD {"os":"","n":7}',
    'STORE m1 FOR d PAYLOAD {"os":"x","n":8}',
]
CASE = {1: "string", 2: "explicit null (zone has a string too)", 3: "string", 4: "omitted (zone has a string too)",
        5: "omitted, whole zone lacks it", 6: "omitted, whole zone lacks it", 7: 'real empty string ""', 8: "string"}


def os_by_n(resp):
    return {flat(r)["n"]: flat(r).get("os", "<absent>") for r in parse_rows(resp)}


def main():
    s = Server(shards=1, epz=2, ff=100)
    try:
        hist = s.send(SETUP)
        q1 = s.send(["QUERY m1"], wait=1.0)
        fl = s.send(["FLUSH"])
        time.sleep(1.5)
        q2 = s.send(["QUERY m1"], wait=1.0)
        print("history:")
        show(hist + q1 + fl + q2)
        before, after = os_by_n(q1[0][1]), os_by_n(q2[0][1])
        segs = sorted(x for x in os.listdir(s.d + "/cols/shard-0") if x.isdigit())
        print("segments on disk after FLUSH:", segs)
        ok = bool(segs) and len(before) == 8 and len(after) == 8
        print("%-3s %-42s %-12s %-12s" % ("n", "case", "before FLUSH", "after FLUSH"))
        for n in sorted(CASE):
            b, a = before.get(n, "<missing row>"), after.get(n, "<missing row>")
            good = (a == b)
            ok = ok and good
            print("%-3s %-42s %-12r %-12r %s" % (n, CASE[n], b, a, "ok" if good else "VIOLATED (expected %r)" % (b,)))
        print("RESULT:", "correct" if ok else "VIOLATED: null in an optional string field is read back as \"\" after FLUSH")
        return 0 if ok else 1
    finally:
        s.stop()


if __name__ == "__main__":
    sys.exit(main())
