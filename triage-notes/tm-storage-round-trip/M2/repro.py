#!/usr/bin/env python3
"""M2: the compactor must cope with a zone that lacks a column (contributes nulls).

event_per_zone=3, segments_per_merge=2, compaction_interval=3 s, 1 shard.
Segment 00000: zone 0 = a-1,a-2,a-3 (only `page`)  -> no block for `dur` in that zone
               zone 1 = b-1 (page, dur=5)
Segment 00001: c-1 (page, dur=7)
Two L0 segments -> the compactor merges them into 10000.
Expected: no panic / compaction error in the server log, the merge completes (the L0 directories
00000/00001 are replaced by populated higher-level segments, no empty left-over directory), and
QUERY / COUNT return the same 5 events before the merge, after it and after a restart.
(With segments_per_merge=2 the policy's left-over threshold is 1, so single segments keep being
promoted one level per tick: 10000 -> 20000 ...; that is independent of this item.)
VARIANT=nofile : segment 00000 holds only a-1..a-3, i.e. it has no `dur` column file at all.
SPM=3 : segments_per_merge=3 (left-over threshold 2): the two L0 segments are really merged into one 10000.
exit 0 = correct, 1 = violated.
"""
import os, sys, time
sys.path.insert(0, os.path.join(os.path.dirname(os.path.abspath(__file__)), "..", "common"))
from harness import Server, parse_rows, flat, show

VARIANT = os.environ.get("VARIANT", "zone")


def snapshot(s, tag):
    q = s.send(["QUERY v", "QUERY v COUNT"], wait=1.0)
    rows = sorted((flat(r)["context_id"], flat(r).get("page"), flat(r).get("dur")) for r in parse_rows(q[0][1]))
    cnt = parse_rows(q[1][1])
    cnt = cnt[0].get("count") if cnt else None
    print("[%s] QUERY v -> %s" % (tag, rows))
    print("[%s] QUERY v COUNT -> %s" % (tag, cnt))
    return rows, cnt


def seg_listing(s):
    base = s.d + "/cols/shard-0"
    return {x: len(os.listdir(os.path.join(base, x))) for x in sorted(os.listdir(base)) if x.isdigit()}


def main():
    s = Server(shards=1, epz=3, ff=100, comp_int=3, spm=int(os.environ.get("SPM", "2")))
    try:
        first = ['STORE v FOR a-1 PAYLOAD {"page":"/a"}',
                 'STORE v FOR a-2 PAYLOAD {"page":"/b"}',
                 'STORE v FOR a-3 PAYLOAD {"page":"/c"}']
        second = ['STORE v FOR c-1 PAYLOAD {"page":"/q","dur":7}']
        if VARIANT == "nofile":
            second.insert(0, 'STORE v FOR b-1 PAYLOAD {"page":"/z","dur":5}')
        else:
            first.append('STORE v FOR b-1 PAYLOAD {"page":"/z","dur":5}')
        hist = s.send(['DEFINE v FIELDS {"page":"string","dur":"int | null"}'] + first)
        exp_rows, exp_cnt = snapshot(s, "in memory, 4 or 3 events")
        hist += s.send(["FLUSH"])
        time.sleep(1.0)
        hist += s.send(second + ["FLUSH"])
        print("history:")
        show(hist)
        time.sleep(0.8)
        expected = sorted([("a-1", "/a", None), ("a-2", "/b", None), ("a-3", "/c", None), ("b-1", "/z", 5), ("c-1", "/q", 7)])
        print("segments after 2 flushes:", seg_listing(s))
        r0 = snapshot(s, "before compaction")
        # wait for the compactor: either a panic / error shows up in the log or L0 dirs are replaced
        deadline = time.time() + 20
        done = panicked = False
        while time.time() < deadline:
            log = s.server_log()
            segs = seg_listing(s)
            if "panicked at" in log or "compaction failed" in log:
                panicked = True
                break
            if "00000" not in segs and "00001" not in segs and segs and all(n > 0 for n in segs.values()):
                done = True
                break
            time.sleep(0.5)
        time.sleep(1.0)
        print("segments after waiting for the compactor (dir -> #files):", seg_listing(s))
        log = s.server_log().strip()
        print("server log:\n   " + (log.replace("\n", "\n   ") if log else "<empty>"))
        r1 = snapshot(s, "after compaction attempt")
        s.restart()
        time.sleep(0.5)
        r2 = snapshot(s, "after restart")
        time.sleep(5)  # let the compactor run once more after the restart
        print("segments 5 s after restart:", seg_listing(s))
        r3 = snapshot(s, "after restart + one more compaction tick")
        log2 = s.server_log().strip()
        ok = True
        for tag, (rows, cnt) in (("before", r0), ("after", r1), ("restart", r2), ("restart+tick", r3)):
            if rows != expected or cnt != 5:
                print("DATA VIOLATION at '%s': expected %s / COUNT 5" % (tag, expected))
                ok = False
        if ok:
            print("data: no event lost or duplicated in QUERY / COUNT at any point")
        if panicked or "panicked at" in log2 or "compaction failed" in log2:
            print("VIOLATED: compactor panicked / failed (expected: zone without the column contributes nulls)")
            ok = False
        if not done:
            print("VIOLATED: compaction of 00000+00001 did not complete (expected populated L1+ segments, no L0 dirs, no empty dirs)")
            ok = False
        print("RESULT:", "correct" if ok else "VIOLATED")
        return 0 if ok else 1
    finally:
        s.stop()


if __name__ == "__main__":
    sys.exit(main())
