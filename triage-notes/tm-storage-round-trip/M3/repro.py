#!/usr/bin/env python3
"""M3: schema-conforming JSON numbers in a STORE payload must be accepted by every command form.

For int / u64 / float fields the values below are sent in three forms
   TCP   : text command over the TCP socket
   HTTP  : the same text command POSTed to /command
   JSON  : {"type":"Store",...} POSTed to /json-command
and afterwards read back with QUERY.  Expected: every schema-conforming value is accepted by
all three forms (status 200) and stored exactly; the non-conforming controls are rejected.
exit 0 = correct, 1 = violated.
"""
import json, os, sys
sys.path.insert(0, os.path.join(os.path.dirname(os.path.abspath(__file__)), "..", "common"))
from harness import Server, parse_rows, flat

# (event type, literal, conforming?, value expected back from QUERY)
CASES = [
    ("mi", "-9223372036854775808", True, -9223372036854775808),   # i64::MIN
    ("mi", "9223372036854775807", True, 9223372036854775807),     # i64::MAX
    ("mu", "9223372036854775808", True, 9223372036854775808),     # 2^63, valid u64
    ("mu", "18446744073709551615", True, 18446744073709551615),   # u64::MAX
    ("mf", "1e300", True, 1e300),
    ("mf", "1E300", True, 1e300),
    ("mf", "1e+300", True, 1e300),                                # explicit '+' in the exponent (RFC 8259)
    ("mf", "1.0E+2", True, 100.0),
    ("mf", "2.5e-3", True, 0.0025),
    ("mi", "9223372036854775808", False, None),                   # control: out of range for int
    ("mu", "-1", False, None),                                    # control: negative for u64
    ("mf", "+5", False, None),                                    # control: not a JSON number
]


def status_tcp(resp):
    r = resp.strip()
    return 200 if r.startswith("200") else (r.splitlines()[0] if r else "<no reply>")


def main():
    s = Server(shards=1, epz=4, ff=1000)
    try:
        for c, r in s.send(['DEFINE mi FIELDS {"v":"int"}', 'DEFINE mu FIELDS {"v":"u64"}', 'DEFINE mf FIELDS {"v":"float"}']):
            print("  >>", c, "->", r.strip().replace("\n", " | "))
        ok = True
        accepted = {"mi": [], "mu": [], "mf": []}
        print("%-3s %-22s %-5s | %-62s | %-40s | %s" % ("et", "literal", "conf.", "TCP", "HTTP /command", "HTTP /json-command"))
        for et, lit, conf, back in CASES:
            cmd = 'STORE %s FOR c PAYLOAD {"v":%s}' % (et, lit)
            t = status_tcp(s.send([cmd])[0][1])
            hc, hb = s.http(cmd)
            body = '{"type":"Store","event_type":"%s","context_id":"c","payload":{"v":%s}}' % (et, lit)
            jc, jb = s.http(body, path="/json-command", content_type="application/json")

            def msg(code, b):
                if code == 200:
                    return "200"
                try:
                    return "%s %s" % (code, json.loads(b).get("message"))
                except Exception:
                    return "%s %s" % (code, b.strip()[:60])
            res = [t == 200, hc == 200, jc == 200]
            good = all(r == conf for r in res)
            ok = ok and good
            for r in res:
                if r:
                    accepted[et].append(back)
            print("%-3s %-22s %-5s | %-62s | %-40s | %-40s %s" % (
                et, lit, "yes" if conf else "no", t, msg(hc, hb)[:40], msg(jc, jb)[:40],
                "ok" if good else "VIOLATED (expected %s in all three forms)" % ("200" if conf else "a rejection")))
        # read back
        for et in ("mi", "mu", "mf"):
            q = s.send(["QUERY %s" % et], wait=1.0)[0][1]
            got = sorted(flat(r)["v"] for r in parse_rows(q))
            exp = sorted(accepted[et])
            same = got == exp
            ok = ok and same
            print("QUERY %s -> v = %s   expected (accepted values, exact) %s -> %s" % (et, got, exp, "ok" if same else "VIOLATED"))
        print("RESULT:", "correct" if ok else "VIOLATED: a schema-conforming number is rejected by the text command form")
        return 0 if ok else 1
    finally:
        s.stop()


if __name__ == "__main__":
    sys.exit(main())
