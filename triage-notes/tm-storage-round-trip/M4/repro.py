#!/usr/bin/env python3
"""M4: after compaction + restart the WAL must not be replayed on top of flushed segments.

1 shard, flush threshold 4 (event_per_zone=2 x fill_factor=2), segments_per_merge=4,
compaction_interval=2 s.  WAL unbuffered, flush_each_write.

  A. STORE n=0..17 (18 events): four automatic flushes (L0 00000..00003), n=16,17 stay in the
     memtable + wal-00004.log.  Wait for the compactor to merge all four L0 segments into 10000.
  B. kill -9 (idle), restart #1 (compaction switched off from here on).  COUNT / QUERY / wal listing.
  C. STORE n=18..23 (6 events): two more automatic flushes.  wal listing.
  D. kill -9 (idle), restart #2.  COUNT / QUERY / wal listing.
Expected at every check: COUNT == number of acknowledged events == number of QUERY rows, and
every wal-*.log that survives a flush holds only events that are not in a segment yet.
exit 0 = correct, 1 = violated.
"""
import json, os, re, struct, sys, time
sys.path.insert(0, os.path.join(os.path.dirname(os.path.abspath(__file__)), "..", "common"))
from harness import Server, parse_rows, flat

stored = []


def store(s, lo, hi):
    cmds = ['STORE ev FOR c%d PAYLOAD {"n":%d}' % (n % 3, n) for n in range(lo, hi)]
    rs = s.send(cmds, wait=0.15)
    bad = [(c, r) for c, r in rs if not r.startswith("200")]
    assert not bad, bad
    stored.extend(range(lo, hi))
    print("  >> STORE ev n=%d..%d (%d events, all acknowledged 200 OK)" % (lo, hi - 1, hi - lo))


def wal(s):
    d = s.d + "/wal/shard-0"
    out = {}
    for f in sorted(os.listdir(d)):
        if f.endswith(".log"):
            vals = []
            for line in open(os.path.join(d, f), errors="replace"):
                try:
                    vals.append(json.loads(line)["payload"]["n"])
                except Exception:
                    vals.append("<torn>")
            out[f] = vals
    return out


def segs(s):
    base = s.d + "/cols/shard-0"
    return sorted(x for x in os.listdir(base) if x.isdigit())


def seg_idx(s):
    try:
        b = open(s.d + "/cols/shard-0/segments.idx", "rb").read()
    except OSError:
        return None
    off = 20
    (n,) = struct.unpack_from("<Q", b, off); off += 8
    out = []
    for _ in range(n):
        (sid,) = struct.unpack_from("<I", b, off); off += 4
        (k,) = struct.unpack_from("<Q", b, off); off += 8
        for _ in range(k):
            (l,) = struct.unpack_from("<Q", b, off); off += 8 + l
        out.append("%05d" % sid)
    return out


def disk(s):
    return "segment dirs=%s segments.idx=%s wal=%s" % (segs(s), seg_idx(s), wal(s))


problems = []


def check(s, tag):
    q = s.send(["QUERY ev", "QUERY ev COUNT"], wait=1.0)
    ns = sorted(flat(r)["n"] for r in parse_rows(q[0][1]))
    c = parse_rows(q[1][1])
    c = c[0].get("count") if c else None
    good = ns == sorted(stored) and c == len(stored)
    print("  [%s] %-28s stored=%d  QUERY rows=%d (distinct n=%d)  COUNT=%s" % (
        "OK" if good else "VIOLATION", tag, len(stored), len(ns), len(set(ns)), c))
    if not good:
        problems.append("%s: stored %d, QUERY rows %d, COUNT %s" % (tag, len(stored), len(ns), c))


def set_cfg(s, key, val):
    p = s.d + "/cfg.toml"
    t = open(p).read()
    t = re.sub(r"(?m)^%s = .*$" % key, "%s = %s" % (key, val), t)
    open(p, "w").write(t)


def main():
    s = Server(shards=1, epz=2, ff=2, comp_int=2, spm=4)
    try:
        print("  >> DEFINE ev FIELDS {\"n\":\"int\"} ->", s.send(['DEFINE ev FIELDS {"n":"int"}'])[0][1].strip().replace("\n", " | "))
        print("A.")
        store(s, 0, 18)
        time.sleep(1.0)
        print("     disk:", disk(s))
        check(s, "after 18 stores")
        print("  >> wait for the compactor (4 L0 segments -> 10000)")
        deadline = time.time() + 30
        while time.time() < deadline and any(x.startswith("0") for x in segs(s)):
            time.sleep(0.5)
        time.sleep(1.0)
        print("     disk:", disk(s))
        compacted = not any(x.startswith("0") for x in segs(s))
        if not compacted:
            problems.append("compaction did not happen within 30 s")
        check(s, "after compaction")
        print("B. kill -9 (idle), restart #1 (compaction_interval -> 3600)")
        set_cfg(s, "compaction_interval", "3600")
        s.restart()
        time.sleep(0.5)
        print("     disk:", disk(s))
        check(s, "after restart #1")
        print("C.")
        store(s, 18, 24)
        time.sleep(1.5)
        d = disk(s)
        print("     disk:", d)
        check(s, "after 6 more stores")
        w = wal(s)
        flushed_in_wal = sorted(n for f, v in w.items() for n in v if isinstance(n, int) and n >= 16 and n < 24)
        print("     events that are in an L0 segment AND still in a surviving wal-*.log: %s" % flushed_in_wal)
        print("     new L0 ids handed out after restart #1: %s ; live WAL ids: %s -> cleanup_up_to(segment_id + 1) = cleanup_up_to(%s) cannot reach them" % (
            [x for x in segs(s) if x.startswith("0")], sorted(w), ", ".join(str(int(x) + 1) for x in segs(s) if x.startswith("0"))))
        if flushed_in_wal:
            problems.append("WAL logs %s survive the flush of their events (never pruned)" % sorted(f for f, v in w.items() if v))
        print("D. kill -9 (idle), restart #2")
        s.restart()
        time.sleep(0.5)
        print("     disk:", disk(s))
        check(s, "after restart #2")
        print("RESULT:", "correct" if not problems else "VIOLATED:\n   - " + "\n   - ".join(problems))
        return 0 if not problems else 1
    finally:
        s.stop()


if __name__ == "__main__":
    sys.exit(main())
