#!/usr/bin/env python3
"""Harness for the M1..M4 repro scripts (derived from /verif/triage-notes/tf-sequences/common/harness.py).

Starts a throw-away snel_db server ($SNEL_BIN, default /var/tmp/tm/target/debug/snel_db)
in a fresh temp dir under $TF_TMP (default /var/tmp/tm/triage) on free ports, sends a
command history over TCP, supports restart() on the same data dir, and kills exactly the
pid it started.
"""
import json, os, shutil, signal, socket, subprocess, sys, tempfile, time, urllib.request

BIN = os.environ.get("SNEL_BIN", "/var/tmp/tm/target/debug/snel_db")
TMP = os.environ.get("TF_TMP", "/var/tmp/tm/triage")

CFG = '''
[wal]
enabled = true
fsync = false
buffered = false
buffer_size = "1KB"
dir = "{d}/wal/"
flush_each_write = true
fsync_every_n = 1
conservative_mode = false
archive_dir = "{d}/wal/archived/"
compression_level = 3
compression_algorithm = "zstd"
[engine]
fill_factor = {ff}
data_dir = "{d}/cols"
index_dir = "{d}/index/"
shard_count = {shards}
event_per_zone = {epz}
compaction_interval = {comp_int}
sys_io_threshold = 100000
sys_memory_threshold_mb = "1MB"
max_inflight_passives = 8
segments_per_merge = {spm}
compaction_max_shard_concurrency = 1
[schema]
def_dir="{d}/schema/"
[server]
socket_path = "{d}/sock"
log_level = "error"
output_format = "json"
tcp_addr = "127.0.0.1:{port}"
http_addr = "127.0.0.1:{port1}"
ws_addr = "127.0.0.1:{port2}"
auth_token = "t"
[playground]
enabled = false
allow_unauthenticated = true
[auth]
bypass_auth = true
rate_limit_enabled = false
[logging]
log_dir = "{d}/logs"
stdout_level = "error"
file_level = "error"
[query]
zone_index_cache_max_entries = 256
column_block_cache_max_bytes = "64MB"
zone_surf_cache_max_bytes = "10MB"
[time]
timezone = "UTC"
week_start = "Mon"
use_calendar_bucketing = true
'''


def _free_ports():
    socks, ports = [], []
    for _ in range(3):
        s = socket.socket()
        s.bind(("127.0.0.1", 0))
        socks.append(s)
        ports.append(s.getsockname()[1])
    for s in socks:
        s.close()
    return ports


class Server:
    def __init__(self, shards=1, epz=4, ff=2, comp_int=3000, spm=2):
        os.makedirs(TMP, exist_ok=True)
        self.d = tempfile.mkdtemp(prefix="tmsrv_", dir=TMP)
        self.port, self.http_port, p2 = _free_ports()
        with open(self.d + "/cfg.toml", "w") as f:
            f.write(CFG.format(d=self.d, shards=shards, port=self.port, port1=self.http_port, port2=p2,
                               epz=epz, ff=ff, comp_int=comp_int, spm=spm))
        self.proc = None
        self.log = None
        self.start()

    def start(self):
        env = dict(os.environ, SNELDB_CONFIG=self.d + "/cfg.toml", SNELDB_PRESERVE_DATA="1", RUST_LOG="error",
                   RUST_BACKTRACE="0")
        self.log = open(self.d + "/server.log", "a")
        self.proc = subprocess.Popen([BIN], cwd=self.d, env=env, stdout=self.log, stderr=subprocess.STDOUT)
        for _ in range(150):
            try:
                socket.create_connection(("127.0.0.1", self.port), timeout=0.2).close()
                break
            except OSError:
                time.sleep(0.1)
        else:
            self.stop()
            raise RuntimeError("server did not start: " + BIN)

    def kill(self):
        """Kill exactly the pid we started; keep the data directory."""
        try:
            self.proc.send_signal(signal.SIGKILL)
            self.proc.wait(timeout=5)
        except Exception:
            pass
        if self.log:
            self.log.close()
            self.log = None

    def restart(self):
        self.kill()
        time.sleep(0.3)
        self.start()

    def send(self, cmds, wait=0.3):
        out = []
        s = socket.create_connection(("127.0.0.1", self.port), timeout=5)
        for c in cmds:
            s.sendall((c + "\n").encode())
            buf = b""
            s.settimeout(10)
            while True:
                try:
                    d = s.recv(65536)
                    if not d:
                        break
                    buf += d
                    s.settimeout(wait)
                    if buf.rstrip().endswith(b'}') and b'"type":"end"' in buf.splitlines()[-1]:
                        break
                except socket.timeout:
                    break
            out.append((c, buf.decode(errors="replace")))
        s.close()
        return out

    def http(self, cmd, path="/command", content_type="text/plain"):
        # X-Auth-User "bypass" is what bypass_auth uses on the other front ends; /json-command
        # takes the user id from this header only (the signature is not checked with bypass_auth)
        req = urllib.request.Request("http://127.0.0.1:%d%s" % (self.http_port, path), data=cmd.encode(),
                                     headers={"Content-Type": content_type, "Authorization": "Bearer t",
                                              "X-Auth-User": "bypass", "X-Auth-Signature": "x"})
        try:
            with urllib.request.urlopen(req, timeout=10) as r:
                return r.status, r.read().decode(errors="replace")
        except urllib.error.HTTPError as e:
            return e.code, e.read().decode(errors="replace")

    def server_log(self):
        try:
            return open(self.d + "/server.log").read()
        except OSError:
            return ""

    def stop(self):
        self.kill()
        if os.environ.get("KEEP") != "1":
            shutil.rmtree(self.d, ignore_errors=True)


def parse_rows(resp):
    rows, cols = [], None
    for line in resp.splitlines():
        line = line.strip()
        if not line.startswith("{"):
            continue
        try:
            o = json.loads(line)
        except Exception:
            continue
        t = o.get("type")
        if t == "schema":
            cols = [c["name"] for c in o.get("columns", [])]
        elif t == "batch":
            for r in o.get("rows", []):
                rows.append(dict(zip(cols, r)) if cols and isinstance(r, list) else r)
        elif t == "row":
            v = o.get("values")
            if isinstance(v, dict):
                rows.append(v)
            elif cols and isinstance(v, list):
                rows.append(dict(zip(cols, v)))
        elif "results" in o:
            for tbl in o["results"] if isinstance(o["results"], list) else [o["results"]]:
                if isinstance(tbl, dict) and "rows" in tbl:
                    names = [c["name"] if isinstance(c, dict) else c for c in tbl.get("columns", [])]
                    for r in tbl["rows"]:
                        rows.append(dict(zip(names, r)))
                elif isinstance(tbl, dict):
                    rows.append(tbl)
    return rows


def flat(row):
    r = dict(row)
    p = r.pop("payload", None)
    if isinstance(p, dict):
        r.update(p)
    return r


def show(hist):
    for c, r in hist:
        print("  >>", c)
        for l in r.strip().splitlines():
            print("     ", l)
