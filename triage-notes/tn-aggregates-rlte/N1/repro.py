#!/usr/bin/env python3
"""N1 - SINCE (and SINCE ... USING <field>) is ignored by aggregate queries.

C09: an aggregate equals a fold over the plain selection of the same QUERY.
For every placement (1|2 shards x in memory|after FLUSH) the plain selection
`QUERY a SINCE <t> [USING at]` is fetched and folded in Python (COUNT, TOTAL v, COUNT PER DAY,
COUNT BY g) and compared with what the server answers for the same command + aggregate.
exit 0 = all equal, 1 = violated.   Usage: [SNEL_BIN=...] python3 repro.py
"""
import os, sys
sys.path.insert(0, os.path.join(os.path.dirname(os.path.abspath(__file__)), "..", "common"))
from tnlib import run, dicts, print_history

D0 = 1735689600  # 2025-01-01T00:00:00Z
DAY = 86400
EV = [(1, "x", D0 + 10), (2, "y", D0 + 20), (3, "x", D0 + DAY + 10), (4, "y", D0 + DAY + 20),
      (5, "x", D0 + 2 * DAY + 10), (6, "y", D0 + 2 * DAY + 20)]
SETUP = ['DEFINE a FIELDS {"v":"int","g":"string","at":"datetime"}'] + [
    'STORE a FOR c%d PAYLOAD {"v":%d,"g":"%s","at":%d}' % (v, v, g, at) for v, g, at in EV]

# (label, selection prefix, bucket field)
CASES = [
    ("core timestamp, SINCE in the future (selects nothing)", "QUERY a SINCE 4000000000", "timestamp"),
    ("USING at, SINCE = start of day 2 (selects v=3..6)", "QUERY a SINCE %d USING at" % (D0 + DAY), "at"),
]
AGGS = ["COUNT", "TOTAL v", "COUNT PER DAY", "COUNT BY g", "COUNT, TOTAL v PER DAY BY g"]


def fold(sel, agg, tf):
    """Expected table (set of tuples) for the aggregate over the selected rows."""
    def bucket(r):
        return (r[tf] // DAY) * DAY
    keyf = {
        "COUNT": lambda r: (),
        "TOTAL v": lambda r: (),
        "COUNT PER DAY": lambda r: (bucket(r),),
        "COUNT BY g": lambda r: (r["g"],),
        "COUNT, TOTAL v PER DAY BY g": lambda r: (bucket(r), r["g"]),
    }[agg]
    groups = {}
    for r in sel:
        groups.setdefault(keyf(r), []).append(r)
    out = set()
    for k, rs in groups.items():
        m = []
        if "COUNT" in agg:
            m.append(len(rs))
        if "TOTAL v" in agg:
            m.append(sum(r["v"] for r in rs))
        out.add(tuple(k) + tuple(m))
    return out


def norm(rows):
    return set(tuple(r) for r in rows)


def empty_ok(observed):
    # nothing selected: no row at all, or a single all-zero row, are both a correct fold
    return observed == set() or all(all(x in (0, None) for x in t) for t in observed)


def main():
    ok = True
    queries = []
    for _, prefix, _tf in CASES:
        queries.append(prefix)
        queries += ["%s %s" % (prefix, a) for a in AGGS]
    print("=== N1: SINCE is ignored by aggregates")
    print_history(SETUP, queries, max_lines=20)
    for shards in (1, 2):
        for flush in (False, True):
            tag = "%d shard(s), %s" % (shards, "after FLUSH" if flush else "in memory")
            res = run(SETUP, queries, shards=shards, epz=4, flush=flush)
            for label, prefix, tf in CASES:
                sel = dicts(res[prefix])
                print("  [%s] %s" % (tag, label))
                print("      plain selection: %d rows, v=%s" % (len(sel), sorted(r["v"] for r in sel)))
                for a in AGGS:
                    q = "%s %s" % (prefix, a)
                    exp = fold(sel, a, tf)
                    obs = norm(res[q][1])
                    good = (obs == exp) or (not sel and empty_ok(obs))
                    print("      %-28s observed %s | expected (fold) %s -> %s" % (
                        a, sorted(obs), sorted(exp), "ok" if good else "VIOLATED"))
                    ok = ok and good
    print("RESULT:", "correct" if ok else "VIOLATED (aggregates ignore SINCE)")
    return 0 if ok else 1


if __name__ == "__main__":
    sys.exit(main())
