#!/usr/bin/env python3
"""N2 - COUNT <field> on a nullable STRING field counts the events whose value is null.

C09: COUNT <field> = number of selected events with a non-null value of <field> (that is what the
typed int column does - COUNT n below - and what AggregatorImpl::update_from_event does).
History: schema {"plan":"string | null","n":"int | null"}; 3 events: plan="pro", plan=null, plan omitted.
Expected = fold over the in-memory plain selection `QUERY a` (non-null values), i.e. 1 for plan, 2 for n.
(After FLUSH the plain selection itself shows "" for a null string - that is finding M1, storage; the
expectation used here is the stored history.)
exit 0 = correct, 1 = violated.   Usage: [SNEL_BIN=...] python3 repro.py
"""
import os, sys
sys.path.insert(0, os.path.join(os.path.dirname(os.path.abspath(__file__)), "..", "common"))
from tnlib import run, dicts, print_history

SETUP = ['DEFINE a FIELDS {"plan":"string | null","n":"int | null"}',
         'STORE a FOR c1 PAYLOAD {"plan":"pro","n":1}',
         'STORE a FOR c2 PAYLOAD {"plan":null,"n":null}',
         'STORE a FOR c3 PAYLOAD {"n":3}']
QUERIES = ["QUERY a", "QUERY a COUNT plan", "QUERY a COUNT n", "QUERY a COUNT, COUNT plan, COUNT n"]
EXP = {"QUERY a COUNT plan": [[1]], "QUERY a COUNT n": [[2]], "QUERY a COUNT, COUNT plan, COUNT n": [[3, 1, 2]]}


def main():
    ok = True
    print("=== N2: COUNT <string field> counts nulls")
    print_history(SETUP, QUERIES)
    for shards in (1, 2):
        for flush, epz in ((False, 4), (True, 4), (True, 1)):
            tag = "%d shard(s), %s" % (shards, ("after FLUSH, event_per_zone=%d" % epz) if flush else "in memory")
            res = run(SETUP, QUERIES, shards=shards, epz=epz, flush=flush)
            sel = dicts(res["QUERY a"])
            print("  [%s] plain selection plan=%s n=%s" % (
                tag, [r["plan"] for r in sorted(sel, key=lambda r: r["context_id"])],
                [r["n"] for r in sorted(sel, key=lambda r: r["context_id"])]))
            for q in QUERIES[1:]:
                obs = res[q][1]
                good = obs == EXP[q]
                print("      %-36s observed %s | expected %s -> %s" % (q[len("QUERY a "):], obs, EXP[q], "ok" if good else "VIOLATED"))
                ok = ok and good
    print("RESULT:", "correct" if ok else "VIOLATED (null strings are counted)")
    return 0 if ok else 1


if __name__ == "__main__":
    sys.exit(main())
