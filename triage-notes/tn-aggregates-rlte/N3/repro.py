#!/usr/bin/env python3
"""N3 - ORDER BY ... LIMIT on an aggregate query: the RLTE zone pre-selection prunes zones
BEFORE the aggregation, although ORDER BY / LIMIT apply to the aggregated groups.

History: 60 orders, 4 countries (15 each), context id derived from the country so that flushed
zones are (mostly) single-country; event_per_zone=4 (64 for the in-memory placements: no auto-flush).
Expected for every placement: the first / last rows of the un-limited aggregate
`QUERY orders COUNT, TOTAL amount BY country` (itself checked against a Python fold of the plain
selection) sorted by country.
exit 0 = correct, 1 = violated.   Usage: [SNEL_BIN=...] python3 repro.py
"""
import os, sys
sys.path.insert(0, os.path.join(os.path.dirname(os.path.abspath(__file__)), "..", "common"))
from tnlib import run, dicts, print_history

C = ["BE", "DE", "FR", "NL"]
SETUP = ['DEFINE orders FIELDS {"country":"string","amount":"int"}']
for i in range(1, 61):
    c = C[i % 4]
    SETUP.append('STORE orders FOR %s%d PAYLOAD {"country":"%s","amount":%d}' % (c.lower(), i % 5, c, i))

Q_SEL = "QUERY orders"
Q_ALL = "QUERY orders COUNT, TOTAL amount BY country"
Q_ASC = "QUERY orders COUNT, TOTAL amount BY country ORDER BY country ASC LIMIT 1"
Q_DESC = "QUERY orders COUNT, TOTAL amount BY country ORDER BY country DESC LIMIT 2"
Q_METRIC = "QUERY orders COUNT, TOTAL amount BY country ORDER BY total_amount DESC LIMIT 1"
QUERIES = [Q_SEL, Q_ALL, Q_ASC, Q_DESC, Q_METRIC]


def main():
    ok = True
    print("=== N3: ORDER BY + LIMIT on aggregates is pre-pruned by RLTE")
    print_history(SETUP, QUERIES)
    for shards in (1, 2):
        for flush in (False, True):
            # in memory: event_per_zone=64 so that the 60 events stay in the memtable (no auto-flush)
            epz = 4 if flush else 64
            tag = "%d shard(s), %s" % (shards, "after FLUSH, event_per_zone=4" if flush else "in memory")
            res = run(SETUP, QUERIES, shards=shards, epz=epz, flush=flush)
            fold = {}
            for r in dicts(res[Q_SEL]):
                g = fold.setdefault(r["country"], [0, 0])
                g[0] += 1
                g[1] += r["amount"]
            full = sorted([k, v[0], v[1]] for k, v in fold.items())
            checks = [
                (Q_ALL, full, sorted(res[Q_ALL][1])),
                (Q_ASC, full[:1], res[Q_ASC][1]),
                (Q_DESC, full[::-1][:2], res[Q_DESC][1]),
                (Q_METRIC, sorted(full, key=lambda r: -r[2])[:1], res[Q_METRIC][1]),
            ]
            for q, exp, obs in checks:
                good = obs == exp
                print("  [%s] %s" % (tag, q[len("QUERY orders "):]))
                print("        observed %s | expected (fold over the selection) %s -> %s" % (
                    obs, exp, "ok" if good else "VIOLATED"))
                ok = ok and good
    print("RESULT:", "correct" if ok else "VIOLATED (zones pruned before the aggregation)")
    return 0 if ok else 1


if __name__ == "__main__":
    sys.exit(main())
