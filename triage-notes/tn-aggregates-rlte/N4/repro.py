#!/usr/bin/env python3
"""N4 - RLTE zone pre-selection (ORDER BY f LIMIT n on flushed data):
  A. FLOAT sort field: ladder strings `{:+025.10e}` are not in numeric order
     -> ORDER BY f ASC LIMIT 1 is not the minimum, DESC LIMIT 1 is not the maximum.
  B. a zone in which the sort field is null in every row has no numeric ladder -> bound (0,0) -> pruned
     -> ORDER BY v ASC LIMIT 1 is [null] in memory but [100] after FLUSH.
  C. like B with the field omitted instead of null.
Expected = the plain selection (`QUERY x`) sorted in Python (nulls first on ASC, last on DESC, which
is what the server itself does in memory and whenever LIMIT is large enough to switch RLTE off).
Informational (not part of the verdict): D. null / missing value inside a zone that also has numbers.
exit 0 = correct, 1 = violated.   Usage: [SNEL_BIN=...] python3 repro.py
"""
import os, sys
sys.path.insert(0, os.path.join(os.path.dirname(os.path.abspath(__file__)), "..", "common"))
from tnlib import run, dicts, print_history


def expected(sel, field, desc, n):
    vals = [r[field] for r in sel]
    nulls = [v for v in vals if v is None]
    nums = sorted((v for v in vals if v is not None), reverse=desc)
    return ((nums + nulls) if desc else (nulls + nums))[:n]


def case(name, et, field, setup, specs, placements, verdict=True):
    """specs: [(desc, limit)]; placements: [(label, shards, epz, flush)]"""
    ok = True
    sel_q = "QUERY %s" % et
    qs = [sel_q] + ["QUERY %s RETURN [%s] ORDER BY %s %s LIMIT %d" % (et, field, field, "DESC" if d else "ASC", n)
                    for d, n in specs]
    print("=== %s%s" % (name, "" if verdict else "   [informational, not part of the verdict]"))
    print_history(setup, qs, max_lines=8)
    for label, shards, epz, flush in placements:
        res = run(setup, qs, shards=shards, epz=epz, flush=flush)
        sel = dicts(res[sel_q])
        for (d, n), q in zip(specs, qs[1:]):
            obs = [r[field] for r in dicts(res[q])]
            exp = expected(sel, field, d, n)
            good = obs == exp
            print("  [%s] ORDER BY %s %s LIMIT %d: observed %s | expected %s -> %s" % (
                label, field, "DESC" if d else "ASC", n, obs, exp, "ok" if good else "VIOLATED"))
            ok = ok and good
    return ok


def main():
    ok = True
    # A. float
    vals = [0.2] + [i + 0.5 for i in range(1, 21)]
    setup = ['DEFINE fl FIELDS {"f":"float"}'] + [
        'STORE fl FOR c%d PAYLOAD {"f":%s}' % (i % 5, v) for i, v in enumerate(vals)]
    ok &= case("N4.A float sort field (21 values 0.2, 1.5, 2.5 .. 20.5)", "fl", "f", setup,
               [(False, 1), (True, 1), (False, 2)],
               [("1 shard, in memory (event_per_zone=64)", 1, 64, False),
                ("1 shard, after FLUSH, event_per_zone=2 (11 zones)", 1, 2, True),
                ("2 shards, after FLUSH, event_per_zone=1 (21 zones)", 2, 1, True)])
    # B. all-null zone
    setup = ['DEFINE nv FIELDS {"v":"int | null"}'] + [
        'STORE nv FOR c%d PAYLOAD {"v":%d}' % (i % 5, 100 + i) for i in range(14)] + [
        'STORE nv FOR c9 PAYLOAD {"v":null}']
    pl = [("1 shard, in memory (event_per_zone=64)", 1, 64, False),
          ("1 shard, after FLUSH, event_per_zone=1 (15 zones)", 1, 1, True),
          ("2 shards, after FLUSH, event_per_zone=1", 2, 1, True)]
    ok &= case("N4.B zone whose sort field is null in every row", "nv", "v", setup, [(False, 1), (False, 2)], pl)
    # C. field omitted
    setup = ['DEFINE mv FIELDS {"v":"int | null","w":"int"}'] + [
        'STORE mv FOR c%d PAYLOAD {"v":%d,"w":1}' % (i % 5, 100 + i) for i in range(14)] + [
        'STORE mv FOR c9 PAYLOAD {"w":1}']
    ok &= case("N4.C zone whose sort field is omitted in every row", "mv", "v", setup, [(False, 1), (False, 2)], pl)
    # D. informational: null / missing next to numbers in the same zone (event_per_zone=3; the context ids put
    #    the null row into a zone together with the two LARGEST values)
    for nm, et, nullrow in (("explicit null", "dn", '{"v":null,"w":1}'), ("field omitted", "dm", '{"w":1}')):
        setup = ['DEFINE %s FIELDS {"v":"int | null","w":"int"}' % et] + [
            'STORE %s FOR c%02d PAYLOAD {"v":%d,"w":1}' % (et, i, 100 + i) for i in range(32)] + [
            'STORE %s FOR c31x PAYLOAD %s' % (et, nullrow)]
        case("N4.D %s in a zone that also has numbers" % nm, et, "v", setup, [(False, 1)],
             [("1 shard, after FLUSH, event_per_zone=3", 1, 3, True)], verdict=False)
    print("RESULT:", "correct" if ok else "VIOLATED")
    return 0 if ok else 1


if __name__ == "__main__":
    sys.exit(main())
