#!/usr/bin/env python3
"""O1: BATCH rebuilds its inner commands from tokens and loses structure.

Oracle: for a single inner command X,  parse_command("BATCH [ X ]")  must be  Ok(Batch([C]))
where  Ok(C) = parse_command(X)  (the same command outside BATCH); for two commands X; Y likewise
Ok(Batch([Cx, Cy])).  Unit level: calls snel_db::command::parser::parse_command through the
throw-away example ../common/to_parse.rs (copied to <repo>/examples/, not part of any diff).
exit 0 = all as expected, 1 = violated.
"""
import os, sys
sys.path.insert(0, os.path.join(os.path.dirname(os.path.abspath(__file__)), "..", "common"))
from tolib import parse_all

singles = [
    # structure lost
    'QUERY e WHERE (a = 1 OR b = 2) AND c = 3',
    'QUERY e WHERE NOT (a = 1 OR b = 2)',
    # f64 round trip of integers
    'QUERY e WHERE id = 9007199254740993',
    'STORE e FOR c1 PAYLOAD {"id": 9007199254740993}',
    'STORE e FOR c1 PAYLOAD {"v": 1e3}',
    # well-formed commands rejected
    'QUERY e WHERE a.b = 1',
    'QUERY e RETURN [a, b]',
    'QUERY e WHERE a = "x;y"',
    'STORE e FOR c1 PAYLOAD {"s": "x;y"}',
    'STORE e FOR c1 PAYLOAD {"s": "say \\"hi\\""}',
    'STORE e FOR c1 PAYLOAD {"s": "a\\nb"}',
    'STORE e FOR c1 PAYLOAD {"l": [1, 2]}',
    'QUERY e WHERE a IN (1, 2)',
    # control: not well-formed outside BATCH either (the QUERY grammar has no backslash escapes)
    'QUERY e WHERE a = "say \\"hi\\""',
    # controls: work today, must keep working
    'STORE order_created FOR user-1 PAYLOAD { "id": 1, "status": "pending" }',
    'QUERY e WHERE a = 1 AND b = "x" LIMIT 3',
    'PING',
    'FLUSH',
    'DEFINE e FIELDS { "a": "int" }',
]
multis = [
    ['STORE e FOR c1 PAYLOAD {"s": "x;y"}', 'QUERY e WHERE (a = 1 OR b = 2) AND c = 3 RETURN [a, b]', 'PING'],
    ['PING', 'FLUSH'],
]
# inputs that are errors today and must stay errors
errors = [
    'BATCH [ BATCH [ PING ] ]',
    'BATCH [ PING; BATCH [ PING; ]; ]',
    'BATCH [ ]',
    'BATCH [ STORE e FOR c1 PAYLOAD { "id": 1 }',
    'BATCH [ INVALID_COMMAND something; ]',
    'BATCH [ STORE e FOR c1 PAYLOAD { "id": 1 } STORE e FOR c1 PAYLOAD { "id": 1 }; ]',
    'BATCH [ PING; } ]',
    'BATCH [ STORE e FOR c1 PAYLOAD { "id": 1 ; ]',
    'BATCH PING',
    'BATCH [ QUERY e WHERE a = "x ]',
]
extra_ok = [
    ('BATCH [ PING;; FLUSH;; ]', 'Ok(Batch([Ping, Flush]))'),
    ('batch [PING]', 'Ok(Batch([Ping]))'),
]

inputs = list(singles) + [c for m in multis for c in m]
inputs += ['BATCH [ %s ]' % s for s in singles] + ['BATCH [ %s; ]' % '; '.join(m) for m in multis]
inputs += errors + [e[0] for e in extra_ok]
res = parse_all(sorted(set(inputs)))

bad = 0
def report(inp, got, want, ok):
    global bad
    bad += 0 if ok else 1
    print("%s parse_command(%r)\n     observed: %s\n     expected: %s" % ("ok      " if ok else "VIOLATED", inp, got, want))

def inner(r):
    return r[3:-1] if r.startswith("Ok(") else None

for s in singles:
    o = res[s]
    b = 'BATCH [ %s ]' % s
    if inner(o) is None:
        report(b, res[b], "Err(..) (the inner command alone is rejected too: %s)" % o, res[b].startswith("Err("))
    else:
        want = "Ok(Batch([%s]))" % inner(o)
        report(b, res[b], want + "   (= the command outside BATCH)", res[b] == want)
for m in multis:
    b = 'BATCH [ %s; ]' % '; '.join(m)
    want = "Ok(Batch([%s]))" % ", ".join(inner(res[c]) for c in m)
    report(b, res[b], want, res[b] == want)
for e in errors:
    report(e, res[e], "Err(..)", res[e].startswith("Err("))
for e, want in extra_ok:
    report(e, res[e], want, res[e] == want)
print("%d cases violated" % bad)
sys.exit(1 if bad else 0)
