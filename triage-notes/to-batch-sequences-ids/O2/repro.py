#!/usr/bin/env python3
"""O2: a RETURN list that hides the field read by WHERE empties a sequence result.
exit 0 = correct, 1 = violated.  SNEL_BIN selects the server binary (default: the unmodified build)."""
import os, sys
sys.path.insert(0, os.path.join(os.path.dirname(os.path.abspath(__file__)), "..", "common"))
import harness as h

DEFS = ['DEFINE pv FIELDS {"page":"string","uid":"string","at":"int"}',
        'DEFINE oc FIELDS {"oid":"int","uid":"string","status":"string","at":"int"}']
HIST = DEFS + ['STORE pv FOR c1 PAYLOAD {"page":"/a","uid":"u1","at":5}',
               'STORE oc FOR c2 PAYLOAD {"oid":1,"uid":"u1","status":"done","at":10}',
               'STORE pv FOR c3 PAYLOAD {"page":"/b","uid":"u2","at":6}',
               'STORE oc FOR c4 PAYLOAD {"oid":2,"uid":"u2","status":"open","at":11}']

def rows_are(expected, hidden=()):
    """expected: list of (event_type, {field: value}) in any order; `hidden` fields must not be in any row"""
    def pred(rows, resp):
        got = []
        for r in rows:
            f = h.flat(r)
            got.append((f.get("event_type"), {k: v for k, v in f.items()
                        if k not in ("event_type", "context_id", "timestamp", "event_id") and v is not None}))
        norm = lambda l: sorted(repr((t, sorted(d.items()))) for t, d in l)
        good = norm(got) == norm(expected) and not any(k in g[1] for g in got for k in hidden)
        return good, got
    return pred

ok = True
Q = 'QUERY pv FOLLOWED BY oc LINKED BY uid USING TIME at WHERE pv.page = "/a"'
ok &= h.check("O2.0 control: WHERE pv.page, no RETURN", HIST, Q, None,
              row_pred=rows_are([("pv", {"page": "/a", "uid": "u1", "at": 5}), ("oc", {"oid": 1, "uid": "u1", "status": "done", "at": 10})]),
              describe="the pair pv(/a,u1) -> oc(1,u1) with all fields")
ok &= h.check("O2.a WHERE pv.page, RETURN [oid]  (page hidden)", HIST, Q + ' RETURN [oid]', None,
              row_pred=rows_are([("pv", {}), ("oc", {"oid": 1})], hidden=("page", "uid", "at")),
              describe="the same pair, rows carry only oid: [('pv', {}), ('oc', {'oid': 1})]")
ok &= h.check("O2.b WHERE oc.status (second event type), RETURN [page]", HIST,
              'QUERY pv FOLLOWED BY oc LINKED BY uid USING TIME at WHERE oc.status = "done" RETURN [page]', None,
              row_pred=rows_are([("pv", {"page": "/a"}), ("oc", {})], hidden=("status", "uid", "at", "oid")),
              describe="[('pv', {'page': '/a'}), ('oc', {})]")
ok &= h.check("O2.c WHERE on both types (AND), RETURN [oid]", HIST,
              'QUERY pv FOLLOWED BY oc LINKED BY uid USING TIME at WHERE pv.page = "/b" AND oc.status = "open" RETURN [oid]', None,
              row_pred=rows_are([("pv", {}), ("oc", {"oid": 2})], hidden=("page", "status", "uid", "at")),
              describe="[('pv', {}), ('oc', {'oid': 2})]")
ok &= h.check("O2.d WHERE field is in the RETURN list (works today)", HIST, Q + ' RETURN [page, oid]', None,
              row_pred=rows_are([("pv", {"page": "/a"}), ("oc", {"oid": 1})], hidden=("uid", "at")),
              describe="[('pv', {'page': '/a'}), ('oc', {'oid': 1})]")
# the item's literal history: default time field (timestamp), schemas without `at`
D2 = ['DEFINE pv FIELDS {"page":"string","uid":"string"}', 'DEFINE oc FIELDS {"oid":"int","uid":"string"}',
      'STORE pv FOR c1 PAYLOAD {"page":"/a","uid":"u1"}', 'STORE oc FOR c2 PAYLOAD {"oid":1,"uid":"u1"}']
ok &= h.check("O2.e item history, no RETURN (control)", D2, 'QUERY pv FOLLOWED BY oc LINKED BY uid WHERE pv.page = "/a"', None,
              row_pred=rows_are([("pv", {"page": "/a", "uid": "u1"}), ("oc", {"oid": 1, "uid": "u1"})]), describe="the pair")
ok &= h.check("O2.f item history, RETURN [oid]", D2, 'QUERY pv FOLLOWED BY oc LINKED BY uid WHERE pv.page = "/a" RETURN [oid]', None,
              row_pred=rows_are([("pv", {}), ("oc", {"oid": 1})], hidden=("page", "uid")), describe="[('pv', {}), ('oc', {'oid': 1})]")
print("RESULT:", "correct" if ok else "VIOLATED")
sys.exit(0 if ok else 1)
