#!/usr/bin/env python3
"""O3: do the rows of a sequence query result carry the real event_id?
Oracle: each row of `QUERY pv FOLLOWED BY oc LINKED BY uid` has an event_id column whose value is the
event_id the plain `QUERY pv` / `QUERY oc` reports for the same (event_type, context_id).
exit 0 = correct, 1 = violated.  SNEL_BIN selects the server binary (default: the unmodified build)."""
import os, sys, time
sys.path.insert(0, os.path.join(os.path.dirname(os.path.abspath(__file__)), "..", "common"))
import harness as h

SETUP = ['DEFINE pv FIELDS {"page":"string","uid":"string","at":"int"}',
         'DEFINE oc FIELDS {"oid":"int","uid":"string","at":"int"}',
         'STORE pv FOR c1 PAYLOAD {"page":"/a","uid":"u1","at":5}',
         'STORE oc FOR c2 PAYLOAD {"oid":1,"uid":"u1","at":10}',
         'STORE pv FOR c3 PAYLOAD {"page":"/b","uid":"u2","at":6}',
         'STORE oc FOR c4 PAYLOAD {"oid":2,"uid":"u2","at":11}']
QUERIES = ['QUERY pv FOLLOWED BY oc LINKED BY uid USING TIME at',
           'QUERY pv FOLLOWED BY oc LINKED BY uid USING TIME at RETURN [oid]',
           'QUERY oc PRECEDED BY pv LINKED BY uid USING TIME at WHERE pv.page = "/a"']
EXPECT_ROWS = [4, 4, 2]
ok = True
print("history:")
for c in SETUP: print("   ", c)
print("    [FLUSH in the 'flushed' placements]")
for shards, flush in h.PLACEMENTS:
    tag = "%d shard(s), %s" % (shards, "after FLUSH" if flush else "in memory")
    srv = h.Server(shards)
    try:
        srv.send(SETUP + (["FLUSH"] if flush else []), wait=0.15)
        if flush: time.sleep(1.0)
        real = {}
        for et in ("pv", "oc"):
            for r in h.parse_rows(srv.send(["QUERY " + et], wait=0.5)[0][1]):
                real[(r["event_type"], r["context_id"])] = r["event_id"]
        print("  [%s] real ids (plain QUERY pv / QUERY oc): %s" % (tag, real))
        for q, n in zip(QUERIES, EXPECT_ROWS):
            rows = h.parse_rows(srv.send([q], wait=0.8)[0][1])
            obs = [((r.get("event_type"), r.get("context_id")), r.get("event_id", "<no event_id column>")) for r in rows]
            good = len(rows) == n and all(real.get(k) is not None and v == real.get(k) for k, v in obs)
            print("    %s\n      observed: %s\n      expected: %d rows, each with its real event_id -> %s" % (q, obs, n, "ok" if good else "VIOLATED"))
            ok &= good
    finally:
        srv.stop()
print("RESULT:", "correct" if ok else "VIOLATED")
sys.exit(0 if ok else 1)
