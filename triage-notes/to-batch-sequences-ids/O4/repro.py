#!/usr/bin/env python3
"""O4: concurrent GRANT / REVOKE on one (user, event type) lose or resurrect a permission bit.

Real server over TCP with authentication enabled. Every round uses a fresh user and fires two
admin commands at the same moment on two connections (a barrier releases both senders), while a
few "noise" connections keep granting on other users so that the cache lock is contended.
After both commands were answered 200 the permissions are read with SHOW PERMISSIONS.

 part A  GRANT READ ON e TO u  ||  GRANT WRITE ON e TO u        expected: e: read, write  (both orders)
 part B  u has READ;  REVOKE READ ON e FROM u || GRANT WRITE ON e TO u   expected: e: write (both orders)

exit 0 = no round violated, 1 = violated.  ROUNDS (default 40) x USERS (default 8) pairs per part, SNEL_BIN = server binary.
"""
import os, socket, sys, threading, time
sys.path.insert(0, os.path.join(os.path.dirname(os.path.abspath(__file__)), "..", "common"))
import harness as h

ROUNDS = int(os.environ.get("ROUNDS", "40"))
USERS = int(os.environ.get("USERS", "8"))     # users per round: 2*USERS commands are fired at the same moment
NOISE = int(os.environ.get("NOISE", "6"))
ADMIN = ("admin", "adminkey")


class Conn:
    def __init__(self, port):
        self.s = socket.create_connection(("127.0.0.1", port), timeout=10)
        self.buf = b""

    def cmd(self, c):
        """one signed command, returns the reply (status line + body lines up to the blank line)"""
        self.s.sendall((h.signed(ADMIN[0], ADMIN[1], c) + "\n").encode())
        self.s.settimeout(10)
        data = b""
        while True:
            try:
                d = self.s.recv(65536)
            except socket.timeout:
                break
            if not d:
                break
            data += d
            if data.endswith(b"\n\n"):
                break
            self.s.settimeout(0.2)
        return data.decode(errors="replace").strip()

    def close(self):
        self.s.close()


def perms(conn, user, et="e"):
    r = conn.cmd("SHOW PERMISSIONS FOR " + user)
    for line in r.splitlines():
        line = line.strip()
        if line.startswith(et + ":"):
            return line
    return et + ": <no entry>" if r.startswith("200") else r


def fire(port, cmds):
    """sends the commands at the same moment on one connection each; returns the replies"""
    conns = [Conn(port) for _ in cmds]
    barrier = threading.Barrier(len(cmds))
    out = [None] * len(cmds)

    def run(i):
        barrier.wait()
        out[i] = conns[i].cmd(cmds[i])
    ts = [threading.Thread(target=run, args=(i,)) for i in range(len(cmds))]
    [t.start() for t in ts]
    [t.join() for t in ts]
    [c.close() for c in conns]
    return out


srv = h.Server(1, auth=h.AUTH_ON)
stop = threading.Event()
bad = []
try:
    adm = Conn(srv.port)
    hist = ['DEFINE e FIELDS { "n": "int" }'] + ["CREATE USER noise%d WITH KEY k" % i for i in range(NOISE)]
    for c in hist:
        r = adm.cmd(c)
        assert r.startswith("200"), (c, r)
    print("setup (admin, signed):")
    for c in hist:
        print("   ", c)

    def noise(i):
        c = Conn(srv.port)
        n = 0
        while not stop.is_set():
            c.cmd("GRANT %s ON e TO noise%d" % ("READ" if n % 2 else "WRITE", i))
            n += 1
        c.close()
    nts = [threading.Thread(target=noise, args=(i,), daemon=True) for i in range(NOISE)]
    [t.start() for t in nts]
    print("    [%d noise connections loop: GRANT READ|WRITE ON e TO noise<i>]" % NOISE)

    for part, pre, pair, want in (
            ("A", [], ("GRANT READ ON e TO %s", "GRANT WRITE ON e TO %s"), "e: read, write"),
            ("B", ["GRANT READ ON e TO %s"], ("REVOKE READ ON e FROM %s", "GRANT WRITE ON e TO %s"), "e: write")):
        seen = {}
        for i in range(ROUNDS):
            us = ["u%s%d_%d" % (part.lower(), i, k) for k in range(USERS)]
            for u in us:
                for c in ["CREATE USER %s WITH KEY k" % u] + [p % u for p in pre]:
                    r = adm.cmd(c)
                    assert r.startswith("200"), (c, r)
            before = {u: perms(adm, u) for u in us}
            replies = fire(srv.port, [p % u for u in us for p in pair])
            assert all(r.startswith("200") for r in replies), replies
            for u in us:
                got = perms(adm, u)
                seen[got] = seen.get(got, 0) + 1
                if got != want:
                    bad.append((part, u, got))
                    if len([b for b in bad if b[0] == part]) <= 3:
                        print("  VIOLATED part %s: CREATE USER %s%s; then concurrently  %s  ||  %s  (both answered 200)"
                              % (part, u, "".join("; " + p % u for p in pre), pair[0] % u, pair[1] % u))
                        print("      before: %s\n      observed SHOW PERMISSIONS FOR %s: %s\n      expected: %s" % (before[u], u, got, want))
        print("part %s: %d x %d pairs of  %s  ||  %s ; expected every time '%s'; observed %s -> %s"
              % (part, ROUNDS, USERS, pair[0] % "<u>", pair[1] % "<u>", want, seen, "ok" if list(seen) == [want] else "VIOLATED"))
finally:
    stop.set()
    time.sleep(0.3)
    srv.stop()
print("RESULT:", "correct" if not bad else "VIOLATED (%d rounds)" % len(bad))
sys.exit(1 if bad else 0)
