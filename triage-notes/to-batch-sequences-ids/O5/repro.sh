#!/bin/bash
# O5: SHOW of a remembered query vs the live query.   usage: repro.sh [a|b]   (default: both)
#   a = separate maxima in the frame mark (2 shards, second boundary, timing-controlled; repro_a.py)
#   b = REMEMBER ... USING <payload time field>: mark computed from `timestamp` (deterministic; repro_b.py)
# exit 0 = correct, 1 = violated (2 = part a could not establish its timing preconditions). SNEL_BIN = server binary.
d=$(dirname "$(readlink -f "$0")"); rc=0
for part in ${1:-a b}; do
  echo "##### O5.$part"
  python3 "$d/repro_$part.py"; r=$?
  [ $r -gt $rc ] && rc=$r
done
exit $rc
