#!/usr/bin/env python3
"""O5.a: a frame's high-water mark is (max timestamp, max event_id) taken SEPARATELY; the SHOW watermark
filter compares (timestamp, event_id) as a pair.  History over TCP (2 shards, real server):

  shard 1 is kept busy by a FLUSH of a large memtable (the shard worker waits for its flush), so event A,
  accepted in second T (its `timestamp` is taken by the STORE handler), gets its event_id only when the
  flush is over, in second T+1 or later.  Meanwhile on shard 0: B (second T+1), then
  REMEMBER QUERY e ORDER BY n AS m (reads shard 0 at once, shard 1 after the flush), then C (second T+1).
  The ORDER BY merger puts A and B into one batch = one frame: mark = (T+1, id(A)), not a real row;
  the real maximum is (T+1, id(B)).  C = (T+1, id(C)) with id(B) < id(C) < id(A) is newer than every
  remembered row but not newer than the mark: SHOW m never returns it.

exit 0 = SHOW m returns exactly the live rows, 1 = violated, 2 = the timing preconditions were not met
(retried up to ATTEMPTS times).  SNEL_BIN selects the server binary.
"""
import os, socket, sys, threading, time
sys.path.insert(0, os.path.join(os.path.dirname(os.path.abspath(__file__)), "..", "common"))
import harness as h

NBIG = int(os.environ.get("NBIG", "60000"))
ATTEMPTS = int(os.environ.get("ATTEMPTS", "3"))


def one(port, cmd, wait_first=30.0, idle=0.15):
    s = socket.create_connection(("127.0.0.1", port), timeout=5)
    s.sendall((cmd + "\n").encode())
    s.settimeout(wait_first)
    buf = b""
    while True:
        try:
            d = s.recv(1 << 20)
        except socket.timeout:
            break
        if not d:
            break
        buf += d
        s.settimeout(idle)
        if buf.endswith(b"\n\n") or b'"type":"end"' in buf:
            break
    s.close()
    return buf.decode(errors="replace")


def sleep_until(t):
    d = t - time.time()
    if d > 0:
        time.sleep(d)


def attempt(no):
    srv = h.Server(2, epz=1000, ff=200)
    log = []

    def say(c, r=None):
        log.append("    [%.3f] %s%s" % (time.time() % 1000, c, "" if r is None else "   -> " + " | ".join(r.strip().splitlines()[:8])))
    try:
        for c in ['DEFINE e FIELDS {"n":"int"}', 'DEFINE big FIELDS {"n":"int","s":"string"}']:
            say(c, one(srv.port, c))
        for i in range(8):
            one(srv.port, 'STORE big FOR p%d PAYLOAD {"n":0,"s":"probe"}' % i)
        rows = h.parse_rows(one(srv.port, 'QUERY big'))
        shard = {r["context_id"]: (r["event_id"] >> 12) & 0x3ff for r in rows}
        s0 = [c for c, v in sorted(shard.items()) if v == 0]
        s1 = [c for c, v in sorted(shard.items()) if v == 1]
        say("contexts of shard 0: %s, of shard 1: %s (shard = bits 12..21 of the event_id)" % (s0, s1))
        cA, cB, cC = s1[0], s0[0], s0[1]
        # large memtable on shard 1
        sk = socket.create_connection(("127.0.0.1", srv.port))
        sk.sendall("".join('STORE big FOR %s PAYLOAD {"n":%d,"s":"x%d"}\n' % (cA, i, i) for i in range(NBIG)).encode())
        got = 0
        sk.settimeout(60)
        while got < NBIG:
            got += sk.recv(1 << 20).count(b"200 OK")
        sk.close()
        say("%d x STORE big FOR %s PAYLOAD {...}   (memtable of shard 1, not flushed: event_per_zone 1000 x fill_factor 200)" % (NBIG, cA))
        time.sleep(0.5)
        T = int(time.time()) + 1
        res = {}
        sleep_until(T + 0.30)
        tf = threading.Thread(target=lambda: res.__setitem__("flush", (one(srv.port, "FLUSH", 120), time.time())))
        tf.start(); say("FLUSH   (own connection; answered when the flush is over)")
        sleep_until(T + 0.45)
        c = 'STORE e FOR %s PAYLOAD {"n":1}' % cA; say("A: " + c, one(srv.port, c))
        sleep_until(T + 1.05)
        c = 'STORE e FOR %s PAYLOAD {"n":2}' % cB; say("B: " + c, one(srv.port, c))
        sleep_until(T + 1.15)
        tr = threading.Thread(target=lambda: res.__setitem__("rem", (one(srv.port, "REMEMBER QUERY e ORDER BY n AS m", 120), time.time())))
        tr.start(); say("REMEMBER QUERY e ORDER BY n AS m   (own connection)")
        sleep_until(T + 1.45)
        c = 'STORE e FOR %s PAYLOAD {"n":3}' % cC; say("C: " + c, one(srv.port, c)); tC = time.time()
        tf.join(); tr.join()
        say("FLUSH answered at %.3f" % (res["flush"][1] % 1000), res["flush"][0])
        say("REMEMBER answered at %.3f" % (res["rem"][1] % 1000), res["rem"][0])
        time.sleep(0.3)
        live = h.parse_rows(one(srv.port, "QUERY e ORDER BY n"))
        show1 = h.parse_rows(one(srv.port, "SHOW m"))
        show2 = h.parse_rows(one(srv.port, "SHOW m"))
    finally:
        srv.stop()
    key = lambda rows: sorted((r["n"], r["context_id"], r["timestamp"], r["event_id"]) for r in rows)
    by_n = {r["n"]: r for r in live}
    pre = []
    if sorted(by_n) != [1, 2, 3]:
        pre.append("live rows are not A, B, C: %s" % key(live))
    else:
        A, B, C = by_n[1], by_n[2], by_n[3]
        if not (A["timestamp"] == T and B["timestamp"] == T + 1 and C["timestamp"] == T + 1):
            pre.append("timestamps are not (T, T+1, T+1) with T=%d: %s" % (T, [A["timestamp"], B["timestamp"], C["timestamp"]]))
        if not (B["event_id"] < C["event_id"] < A["event_id"]):
            pre.append("not id(B) < id(C) < id(A) (the flush of shard 1 was over too early)")
        if "rows stored: 2" not in res["rem"][0]:
            pre.append("REMEMBER did not store exactly A and B")
    print("attempt %d, command history (second T = %d):" % (no, T))
    print("\n".join(log))
    print("    QUERY e ORDER BY n ; SHOW m ; SHOW m")
    print("  live rows  (n, ctx, timestamp, event_id): %s" % key(live))
    print("  SHOW m #1                               : %s" % key(show1))
    print("  SHOW m #2                               : %s" % key(show2))
    if pre:
        print("  timing preconditions NOT met: %s" % "; ".join(pre))
        return None
    good = key(show1) == key(live) and key(show2) == key(live)
    print("  expected: both SHOW m return exactly the live rows -> %s" % ("ok" if good else "VIOLATED (C is missing)" if len(show2) < len(live) else "VIOLATED"))
    return good


for no in range(1, ATTEMPTS + 1):
    r = attempt(no)
    if r is not None:
        print("RESULT:", "correct" if r else "VIOLATED")
        sys.exit(0 if r else 1)
print("RESULT: timing preconditions not met in %d attempts" % ATTEMPTS)
sys.exit(2)
