#!/usr/bin/env python3
"""O5.b: REMEMBER QUERY ... USING <payload time field>: the frame mark is computed from the core `timestamp`
column (store wall clock), the delta query of SHOW filters `SINCE <mark.timestamp> USING <field>` and the
watermark filter compares (<field>, event_id) with that mark.
Oracle: SHOW m returns exactly the rows of the live query, each once.  Deterministic, 1 and 2 shards.
exit 0 = correct, 1 = violated.  SNEL_BIN selects the server binary."""
import os, sys, time
sys.path.insert(0, os.path.join(os.path.dirname(os.path.abspath(__file__)), "..", "common"))
import harness as h

DEF = 'DEFINE e FIELDS {"n":"int","created_at":"datetime"}'
CASES = [
    ("b1 field values ascending, but (as for any backfilled data) below the wall clock",
     ['STORE e FOR c1 PAYLOAD {"n":1,"created_at":1000}'], ['STORE e FOR c2 PAYLOAD {"n":2,"created_at":2000}']),
    ("b2 field value above the wall clock (2100-01-01)",
     ['STORE e FOR c1 PAYLOAD {"n":1,"created_at":4102444800}'], ['STORE e FOR c2 PAYLOAD {"n":2,"created_at":4102444900}']),
    ("b3 field values not in arrival order (later event has the smaller value)",
     ['STORE e FOR c1 PAYLOAD {"n":1,"created_at":2000}'], ['STORE e FOR c2 PAYLOAD {"n":2,"created_at":1000}']),
    ("b0 control: same history without USING",
     ['STORE e FOR c1 PAYLOAD {"n":1,"created_at":1000}'], ['STORE e FOR c2 PAYLOAD {"n":2,"created_at":2000}']),
]
ok = True
for name, before, after in CASES:
    using = "" if name.startswith("b0") else " USING created_at"
    for shards in (1, 2):
        srv = h.Server(shards)
        try:
            hist = [DEF] + before + ['REMEMBER QUERY e%s AS m' % using] + after
            rep = srv.send(hist, wait=0.3)
            mark = [l for l in rep[len(before) + 1][1].splitlines() if l.startswith("high-water mark")]
            time.sleep(0.3)
            show1 = h.parse_rows(srv.send(['SHOW m'], wait=0.8)[0][1])
            show2 = h.parse_rows(srv.send(['SHOW m'], wait=0.8)[0][1])
            live = h.parse_rows(srv.send(['QUERY e%s' % using], wait=0.8)[0][1])
        finally:
            srv.stop()
        k = lambda rows: sorted((r["context_id"], r["created_at"]) for r in rows)
        good = k(show1) == k(live) and k(show2) == k(live)
        ok &= good
        print("=== %s  [%d shard(s)]" % (name, shards))
        for c in hist + ['SHOW m', 'SHOW m', 'QUERY e%s' % using]:
            print("    " + c)
        print("  REMEMBER reported: %s" % (mark[0] if mark else "?"))
        print("  live rows (ctx, created_at): %s\n  SHOW m #1                  : %s\n  SHOW m #2                  : %s" % (k(live), k(show1), k(show2)))
        print("  expected: SHOW m == live rows -> %s" % ("ok" if good else "VIOLATED"))
print("RESULT:", "correct" if ok else "VIOLATED")
sys.exit(0 if ok else 1)
