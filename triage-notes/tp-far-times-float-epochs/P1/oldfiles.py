#!/usr/bin/env python3
"""P1 - what the repaired binary does with .cal files written by the unrepaired one.

usage: oldfiles.py <writer binary> <reader binary>
Writes one segment (far: 2200-01-01, y2080: 3500000000, now: 1700000000 - one zone each,
event_per_zone = 1 here) with the writer binary, FLUSH, kills it, starts the reader
binary on the same data directory and prints what each query returns. Informational
(always exits 0); the table is quoted in ROOTCAUSE.md.
"""
import os, sys, time, shutil, signal, subprocess, socket, tempfile
sys.path.insert(0, os.path.join(os.path.dirname(os.path.abspath(__file__)), "..", "common"))
os.environ.setdefault("TF_TMP", "/var/tmp/tp/tmp")
import harness as h

writer, reader = sys.argv[1], sys.argv[2]
h.CFG = h.CFG.replace("event_per_zone = 4", "event_per_zone = 1")


class Srv(h.Server):
    def __init__(self, binary, d=None, ports=None):
        self.d = d or tempfile.mkdtemp(prefix="tfold_", dir=os.environ["TF_TMP"])
        if ports is None:
            ports = h._free_ports()
            with open(self.d + "/cfg.toml", "w") as f:
                f.write(h.CFG.format(d=self.d, shards=1, port=ports[0], port1=ports[1], port2=ports[2]))
        self.ports = ports
        self.port = ports[0]
        env = dict(os.environ, SNELDB_CONFIG=self.d + "/cfg.toml", SNELDB_PRESERVE_DATA="1", RUST_LOG="error")
        self.log = open(self.d + "/server.log", "a")
        self.proc = subprocess.Popen([binary], cwd=self.d, env=env, stdout=self.log, stderr=subprocess.STDOUT)
        for _ in range(100):
            try:
                socket.create_connection(("127.0.0.1", self.port), timeout=0.2).close()
                break
            except OSError:
                time.sleep(0.1)
        else:
            self.kill()
            raise RuntimeError("server did not start")

    def kill(self):
        self.proc.send_signal(signal.SIGKILL)   # only the pid we started
        self.proc.wait(timeout=5)
        self.log.close()


QUERIES = [
    ('QUERY ev WHERE at = 7258118400', ["far"]),
    ('QUERY ev WHERE at >= 7258118400', ["far"]),
    ('QUERY ev WHERE at >= 7000000000', ["far"]),
    ('QUERY ev WHERE at >= 3000000000', ["far", "y2080"]),
    ('QUERY ev WHERE at >= 2900000000', ["far", "y2080"]),
    ('QUERY ev WHERE at <= 7258118400', ["far", "now", "y2080"]),
    ('QUERY ev WHERE at <= 4300000000', ["now", "y2080"]),
    ('QUERY ev WHERE at <= 3600000000', ["now", "y2080"]),
    ('QUERY ev WHERE at = 3500000000', ["y2080"]),
    ('QUERY ev WHERE at >= 1600000000 AND at <= 1800000000', ["now"]),
]

s = Srv(writer)
d, ports = s.d, s.ports
try:
    for c in ['DEFINE ev FIELDS {"name":"string","at":"datetime"}',
              'STORE ev FOR c1 PAYLOAD {"name":"far","at":"2200-01-01T00:00:00Z"}',
              'STORE ev FOR c1 PAYLOAD {"name":"y2080","at":3500000000}',
              'STORE ev FOR c1 PAYLOAD {"name":"now","at":1700000000}',
              'FLUSH']:
        r = s.send([c], wait=0.2)[0][1]
        print("writer  %-72s -> %s" % (c, r.split("\n")[0].strip()))
    time.sleep(1.5)
    print("files:", sorted(f for _, _, fs in os.walk(d + "/cols") for f in fs if f.endswith("_at.cal")))
    s.kill()
    s = Srv(reader, d, ports)
    for q, exp in QUERIES:
        resp = s.send([q], wait=0.6)[0][1]
        got = sorted(h.flat(r).get("name") for r in h.parse_rows(resp))
        print("reader  %-60s observed %-26s complete answer %-26s %s" % (q, got, sorted(exp), "ok" if got == sorted(exp) else "INCOMPLETE"))
finally:
    try:
        s.kill()
    except Exception:
        pass
    shutil.rmtree(d, ignore_errors=True)
