#!/usr/bin/env python3
"""P1 - time values from 2106-02-07 on (>= 2^32 s) and the calendar index (.cal).

One command:  python3 /var/tmp/tp/out/P1/repro.py        exit 0 = correct, 1 = violated
Env: SNEL_BIN (default /var/tmp/tp/target/debug/snel_db), TF_TMP (default /var/tmp/tp/tmp).

Every scenario is run against a throw-away server over TCP, once with the rows still in
the memtable and once after FLUSH; the same queries must return the same rows.
"""
import os, sys, time
sys.path.insert(0, os.path.join(os.path.dirname(os.path.abspath(__file__)), "..", "common"))
os.environ.setdefault("SNEL_BIN", "/var/tmp/tp/target/debug/snel_db")
os.environ.setdefault("TF_TMP", "/var/tmp/tp/tmp")
os.makedirs(os.environ["TF_TMP"], exist_ok=True)
import harness as h

DEFINE = 'DEFINE ev FIELDS {"name":"string","at":"datetime"}'


def store(name, at):
    return 'STORE ev FOR c1 PAYLOAD {"name":"%s","at":%s}' % (name, at)


SCENARIOS = [
    # (title, setup, [(query, expected names)])
    ("A: one event in 2200 (the reported history)",
     [DEFINE, store("far", '"2200-01-01T00:00:00Z"')],
     [('QUERY ev WHERE at >= 3000000000', ["far"]),
      ('QUERY ev SINCE 3000000000 USING at', ["far"]),
      ('QUERY ev WHERE at >= "2065-01-24T05:20:00Z"', ["far"]),
      ('QUERY ev WHERE at > 4294967295', ["far"]),
      ('QUERY ev WHERE at >= 7258118400', ["far"]),
      ('QUERY ev WHERE at > 7258118399', ["far"]),
      ('QUERY ev WHERE at <= 7258118400', ["far"]),
      ('QUERY ev WHERE at >= 2900000000', ["far"]),      # control: works today
      ('QUERY ev WHERE at = 7258118400', ["far"]),       # control: works today
      ('QUERY ev WHERE at >= 7258118401', []),
      ('QUERY ev WHERE at < 7258118400', []),
      ('QUERY ev WHERE at <= 3000000000', []),
      ('QUERY ev WHERE at = 2963151104', []),            # 7258118400 mod 2^32
      ]),
    ("B: one ordinary event (2023), literal of the query beyond 2106",
     [DEFINE, store("now", 1700000000)],
     [('QUERY ev WHERE at <= 4300000000', ["now"]),
      ('QUERY ev WHERE at < "2106-03-01T00:00:00Z"', ["now"]),
      ('QUERY ev WHERE at <= 7258118400', ["now"]),
      ('QUERY ev WHERE at >= 4300000000', []),
      ('QUERY ev WHERE at = 5994967296', []),            # 1700000000 + 2^32
      ]),
    ("C: one event in 2080 (< 2^32), upper bound in 2200",
     [DEFINE, store("y2080", 3500000000)],
     [('QUERY ev WHERE at <= 7258118400', ["y2080"]),
      ('QUERY ev WHERE at < "2200-01-01T00:00:00Z"', ["y2080"]),
      ]),
    ("D: two segments (3 ordinary rows | FLUSH | 3 rows from 2106-02-08 on | FLUSH)",
     [DEFINE] + [store("n%d" % i, 1700000000 + i * 86400) for i in range(3)] + ["FLUSH"]
     + [store("f%d" % i, 4295030400 + i * 86400 * 4000) for i in range(3)],
     [('QUERY ev WHERE at >= 3000000000', ["f0", "f1", "f2"]),
      ('QUERY ev SINCE 3000000000 USING at', ["f0", "f1", "f2"]),
      ('QUERY ev WHERE at >= 4295030400', ["f0", "f1", "f2"]),
      ('QUERY ev WHERE at > 4295030400', ["f1", "f2"]),
      ('QUERY ev WHERE at <= 4295030400', ["f0", "n0", "n1", "n2"]),
      ('QUERY ev WHERE at < 4295030400', ["n0", "n1", "n2"]),
      ('QUERY ev WHERE at <= 5000000000', ["f0", "f1", "f2", "n0", "n1", "n2"]),
      ('QUERY ev WHERE at >= 1700000000 AND at <= 4800000000', ["f0", "f1", "n0", "n1", "n2"]),
      ('QUERY ev WHERE at >= 1700086400 AND at <= 1700086400', ["n1"]),   # control: ordinary range
      ('QUERY ev WHERE at = 4640630400', ["f1"]),
      ('QUERY ev WHERE at != 4640630400', ["f0", "f2", "n0", "n1", "n2"]),
      ]),
]


def main():
    ok = True
    for title, setup, checks in SCENARIOS:
        print("=== " + title)
        for flush in (False, True):
            tag = "after FLUSH" if flush else "in memory "
            srv = h.Server(1)
            try:
                hist = []
                for c in (setup + ["FLUSH"]) if flush else [c for c in setup if c != "FLUSH"]:
                    hist += srv.send([c], wait=0.15)
                    if c == "FLUSH":
                        time.sleep(1.0)
                if not flush:
                    print("history:")
                    for c in setup:
                        r = dict(hist).get(c, "(after FLUSH run only)")
                        print("    %-70s -> %s" % (c, r.split("\n")[0].strip()))
                    print("    [FLUSH where marked and at the end, in the 'after FLUSH' run only]")
                for q, exp in checks:
                    resp = srv.send([q], wait=0.6)[0][1]
                    got = sorted(h.flat(r).get("name") for r in h.parse_rows(resp))
                    good = got == sorted(exp)
                    ok = ok and good
                    print("  [%s] %-62s observed %-34s expected %-34s %s" % (
                        tag, q, got, sorted(exp), "ok" if good else "VIOLATED"))
            finally:
                srv.stop()
    print("RESULT:", "correct" if ok else "VIOLATED")
    return 0 if ok else 1


if __name__ == "__main__":
    sys.exit(main())
