#!/usr/bin/env python3
"""P2 - an epoch written as a JSON float is stored unconverted (always taken as seconds).

One command:  python3 /var/tmp/tp/out/P2/repro.py        exit 0 = correct, 1 = violated
Env: SNEL_BIN (default /var/tmp/tp/target/debug/snel_db), TF_TMP (default /var/tmp/tp/tmp).

Every spelling of one instant is stored into a `datetime` field of a throw-away server
(TCP); the stored value (as returned by QUERY) and the result of
`WHERE at = <canonical seconds>` / `WHERE at = "<ISO-8601>"` must be the same for the
integer and for the float spelling, in memory and after FLUSH.
"""
import os, sys, time
sys.path.insert(0, os.path.join(os.path.dirname(os.path.abspath(__file__)), "..", "common"))
os.environ.setdefault("SNEL_BIN", "/var/tmp/tp/target/debug/snel_db")
os.environ.setdefault("TF_TMP", "/var/tmp/tp/tmp")
os.makedirs(os.environ["TF_TMP"], exist_ok=True)
import harness as h

DEFINE = 'DEFINE ev FIELDS {"name":"string","at":"datetime"}'
T = 1709652600                      # 2024-03-05T15:30:00Z
ISO = "2024-03-05T15:30:00Z"

# (name, JSON spelling, expected stored seconds, group)
SPELLINGS = [
    # group "T": every spelling of 2024-03-05T15:30:00(.x)Z
    ("iso",        '"%s"' % ISO,              T, "T"),
    ("int_s",      "1709652600",              T, "T"),
    ("int_ms",     "1709652600000",           T, "T"),
    ("int_us",     "1709652600000000",        T, "T"),
    ("int_ns",     "1709652600000000000",     T, "T"),
    ("str_ms",     '"1709652600000"',         T, "T"),
    ("flt_s",      "1709652600.0",            T, "T"),
    ("flt_s_frac", "1709652600.9",            T, "T"),     # pinned by normalize_json_value_variants
    ("flt_ms",     "1709652600000.0",         T, "T"),
    ("flt_ms_frac", "1709652600123.5",        T, "T"),
    ("flt_ms_exp", "1.7096526e12",            T, "T"),
    ("flt_us",     "1709652600000000.0",      T, "T"),
    ("flt_ns",     "1709652600000000000.0",   T, "T"),
    ("flt_ns_exp", "1.7096526e18",            T, "T"),
    # group "N": 1915-10-28T08:29:59.5Z .. 08:30:00Z, floor -> -1709652601 / -1709652600
    ("neg_int_s",  "-1709652600",             -T, "N"),
    ("neg_int_ms", "-1709652600000",          -T, "N"),
    ("neg_flt_s",  "-1709652600.0",           -T, "N"),
    ("neg_flt_ms", "-1709652600000.0",        -T, "N"),
    ("neg_int_ms_frac", "-1709652600500",     -T - 1, "N1"),
    ("neg_flt_s_frac",  "-1709652600.5",      -T - 1, "N1"),
    ("neg_flt_ms_frac", "-1709652600499.5",   -T - 1, "N1"),
]

QUERIES = [
    ('QUERY ev WHERE at = %d' % T, "T"),
    ('QUERY ev WHERE at = "%s"' % ISO, "T"),
    ('QUERY ev WHERE at >= %d AND at <= %d' % (T, T), "T"),
    ('QUERY ev WHERE at = %d' % -T, "N"),
    ('QUERY ev WHERE at = %d' % (-T - 1), "N1"),
]


def main():
    ok = True
    for flush in (False, True):
        tag = "after FLUSH" if flush else "in memory "
        srv = h.Server(1)
        try:
            cmds = [DEFINE]
            for i, (name, lit, _, _) in enumerate(SPELLINGS):
                cmds.append('STORE ev FOR c%d PAYLOAD {"name":"%s","at":%s}' % (i, name, lit))
                if flush and i % 4 == 3:
                    cmds.append("FLUSH")
            if flush:
                cmds.append("FLUSH")
            hist = []
            for c in cmds:
                hist += srv.send([c], wait=0.15)
                if c == "FLUSH":
                    time.sleep(1.0)
            print("=== history (%s)" % tag.strip())
            for c, r in hist:
                print("    %-84s -> %s" % (c, " ".join(r.split("\n")[:2]).strip()))
            bad = [c for c, r in hist if not r.startswith("200")]
            if bad:
                ok = False
                print("  VIOLATED: rejected:", bad)
            rows = [h.flat(r) for r in h.parse_rows(srv.send(['QUERY ev'], wait=1.0)[0][1])]
            stored = {r.get("name"): r.get("at") for r in rows}
            for name, lit, exp, _ in SPELLINGS:
                good = stored.get(name) == exp
                ok = ok and good
                print("  [%s] at: %-24s stored as %-22s expected %-12s %s" % (
                    tag, lit, stored.get(name), exp, "ok" if good else "VIOLATED"))
            for q, grp in QUERIES:
                exp = sorted(n for n, _, _, g in SPELLINGS if g == grp)
                got = sorted(h.flat(r).get("name") for r in h.parse_rows(srv.send([q], wait=0.8)[0][1]))
                good = got == exp
                ok = ok and good
                print("  [%s] %s" % (tag, q))
                print("        observed %s" % got)
                print("        expected %s  %s" % (exp, "ok" if good else "VIOLATED"))
                if not good:
                    print("        missing  %s   unexpected %s" % (sorted(set(exp) - set(got)), sorted(set(got) - set(exp))))
            # informational only (WHERE side, not part of P2): the same spellings as query literal
            if not flush:
                print("  info: spellings as WHERE literal (numeric literals are not normalized by WHERE; see ROOTCAUSE.md)")
                for name, lit, _, g in SPELLINGS:
                    if g == "T":
                        got = sorted(h.flat(r).get("name") for r in h.parse_rows(srv.send(['QUERY ev WHERE at = ' + lit], wait=0.6)[0][1]))
                        print("        WHERE at = %-24s -> %d rows" % (lit, len(got)))
        finally:
            srv.stop()
    print("RESULT:", "correct" if ok else "VIOLATED")
    return 0 if ok else 1


if __name__ == "__main__":
    sys.exit(main())
