#!/usr/bin/env python3
"""Q1 - an aggregate query WITHOUT ORDER BY applies OFFSET (and LIMIT) twice.

C09/C10: `<aggregate> LIMIT l OFFSET o` = rows [o, o+l) of the no-OFFSET answer of the same query
(the merged groups in the server's own deterministic group order).
History A: 7 events, country NL FR DE IT ES NL FR  -> 5 groups DE:1 ES:1 FR:2 IT:1 NL:2.
History B: 2 groups (NL, FR): `COUNT BY country LIMIT 1 OFFSET 1` must be the 2nd group.
The expectation is computed from the server's own answer to the query without LIMIT/OFFSET.
Placements: shards {1,2} x {in memory, after FLUSH}.
exit 0 = correct, 1 = violated.   Usage: [SNEL_BIN=...] python3 repro.py
"""
import os, sys
sys.path.insert(0, os.path.join(os.path.dirname(os.path.abspath(__file__)), "..", "common"))
from tqlib import run, print_history

A = ['DEFINE ev FIELDS {"country":"string","n":"int"}'] + [
    'STORE ev FOR c%d PAYLOAD {"country":"%s","n":%d}' % (i, c, i)
    for i, c in enumerate(["NL", "FR", "DE", "IT", "ES", "NL", "FR"], 1)]
B = ['DEFINE ev FIELDS {"country":"string","n":"int"}',
     'STORE ev FOR c1 PAYLOAD {"country":"NL","n":1}',
     'STORE ev FOR c2 PAYLOAD {"country":"FR","n":2}']

BASE = "QUERY ev COUNT BY country"
# (history, paged query, limit, offset)
CASES_A = [(BASE + " LIMIT 2 OFFSET 1", 2, 1), (BASE + " LIMIT 2 OFFSET 2", 2, 2), (BASE + " LIMIT 5 OFFSET 1", 5, 1),
           (BASE + " LIMIT 3 OFFSET 0", 3, 0), (BASE + " LIMIT 2", 2, 0),
           # control: with ORDER BY the response writer is not given LIMIT/OFFSET (handler.rs:148-152)
           (BASE + " ORDER BY country ASC LIMIT 2 OFFSET 1", 2, 1)]
CASES_B = [(BASE + " LIMIT 1 OFFSET 1", 1, 1)]


def main():
    ok = True
    print("=== Q1: aggregate without ORDER BY: OFFSET applied twice")
    for name, setup, cases in (("A (5 groups)", A, CASES_A), ("B (2 groups)", B, CASES_B)):
        queries = [BASE] + [c[0] for c in cases]
        print("--- history", name)
        print_history(setup, queries)
        for shards in (1, 2):
            for flush in (False, True):
                tag = "%d shard(s), %s" % (shards, "after FLUSH" if flush else "in memory")
                res = run(setup, queries, shards=shards, flush=flush)
                full = res[BASE][1]
                print("  [%s] %s -> %s" % (tag, BASE, full))
                for q, lim, off in cases:
                    exp = full[off:off + lim]
                    obs = res[q][1]
                    good = obs == exp
                    print("      %-52s observed %s | expected %s -> %s" % (q[len(BASE) + 1:], obs, exp, "ok" if good else "VIOLATED"))
                    ok = ok and good
    print("RESULT:", "correct" if ok else "VIOLATED (OFFSET is applied by the merger and again by the response writer)")
    return 0 if ok else 1


if __name__ == "__main__":
    sys.exit(main())
