#!/usr/bin/env python3
"""Q2 - TOTAL / AVG / MIN / MAX on a FLOAT field skip the fractional values.

C09: an aggregate is the fold of the operator over the selected events' values of the field.
Schema {"price":"float","g":"string"}; the expectation is computed here from the stored history.
Histories:
  A  9.5, 0, 19.25, 99              (the task's example: TOTAL 127.75, AVG 31.9375, MIN 0, MAX 99)
  B  1.5, 2.5, 100.25               (only fractional values)
  C  10.0, 20.0, 3.0                (integral floats only - control, works today)
  D  -2.5, -1.0, 4.0, 0.5           (negative values)
Operators: COUNT price (control), TOTAL, AVG, MIN, MAX; also BY g for history A.
Placements: shards {1,2} x {in memory, after FLUSH}.
exit 0 = correct, 1 = violated.   Usage: [SNEL_BIN=...] python3 repro.py
"""
import os, sys
sys.path.insert(0, os.path.join(os.path.dirname(os.path.abspath(__file__)), "..", "common"))
from tqlib import run, print_history

HIST = {"A": [9.5, 0, 19.25, 99], "B": [1.5, 2.5, 100.25], "C": [10.0, 20.0, 3.0], "D": [-2.5, -1.0, 4.0, 0.5]}
OPS = ["COUNT price", "TOTAL price", "AVG price", "MIN price", "MAX price"]


def js(v):
    return repr(v) if isinstance(v, float) else str(v)


def setup(vals):
    return ['DEFINE ev FIELDS {"price":"float","g":"string"}'] + [
        'STORE ev FOR c%d PAYLOAD {"price":%s,"g":"%s"}' % (i, js(v), "x" if i % 2 else "y") for i, v in enumerate(vals, 1)]


def fold(op, vals):
    vals = [float(v) for v in vals]
    return {"COUNT": len(vals), "TOTAL": sum(vals), "AVG": sum(vals) / len(vals), "MIN": min(vals), "MAX": max(vals)}[op]


def num(x):
    try:
        return float(x)
    except (TypeError, ValueError):
        return x


def main():
    ok = True
    print("=== Q2: TOTAL/AVG/MIN/MAX on a float field")
    for name, vals in HIST.items():
        st = setup(vals)
        queries = ["QUERY ev " + o for o in OPS] + (["QUERY ev TOTAL price, MAX price BY g"] if name == "A" else [])
        print("--- history %s: price = %s" % (name, vals))
        print_history(st, queries)
        for shards in (1, 2):
            for flush in (False, True):
                tag = "%d shard(s), %s" % (shards, "after FLUSH" if flush else "in memory")
                res = run(st, queries, shards=shards, flush=flush)
                line = []
                for o in OPS:
                    rows = res["QUERY ev " + o][1]
                    obs = rows[0][0] if rows and rows[0] else None
                    exp = fold(o.split()[0], vals)
                    good = isinstance(num(obs), float) and abs(num(obs) - exp) < 1e-9
                    line.append("%s=%s (exp %s)%s" % (o.split()[0], obs, js(exp), "" if good else " VIOLATED"))
                    ok = ok and good
                print("  [%s] %s" % (tag, "; ".join(line)))
                if name == "A":
                    rows = sorted(res[queries[-1]][1])
                    xs = [v for i, v in enumerate(vals, 1) if i % 2]
                    ys = [v for i, v in enumerate(vals, 1) if not i % 2]
                    exp = [["x", sum(xs), max(xs)], ["y", sum(ys), max(ys)]]
                    good = len(rows) == 2 and all(
                        r[0] == e[0] and isinstance(num(r[1]), float) and abs(num(r[1]) - e[1]) < 1e-9
                        and isinstance(num(r[2]), float) and abs(num(r[2]) - e[2]) < 1e-9 for r, e in zip(rows, exp))
                    print("      TOTAL price, MAX price BY g: observed %s | expected %s -> %s" % (rows, exp, "ok" if good else "VIOLATED"))
                    ok = ok and good
    print("RESULT:", "correct" if ok else "VIOLATED (fractional float values do not take part in TOTAL/AVG/MIN/MAX)")
    return 0 if ok else 1


if __name__ == "__main__":
    sys.exit(main())
