#!/usr/bin/env python3
"""Q3 - a PlotQL comparison (`A VS B`) with avg(...) or unique(...) answers 500.

C09/C17: `PLOT m OF a VS m OF b BREAKDOWN BY f` = the two aggregate queries `QUERY a <m> BY f` / `QUERY b <m> BY f`
side by side (full outer join on the group), so each cell must equal the cell of the single query.
History: orders (NL 10, NL 20, FR 40, DE 7), pay (NL 5, FR 15, FR 25, ES 9); user u1..u3.
Expected = the server's own answers to the two single queries, joined (a deviation of those from the fold over the
stored history is reported as a note: it belongs to another, known finding).
Placements: shards {1,2} x {in memory, after FLUSH}.
exit 0 = correct, 1 = violated.   Usage: [SNEL_BIN=...] python3 repro.py
"""
import os, sys
sys.path.insert(0, os.path.join(os.path.dirname(os.path.abspath(__file__)), "..", "common"))
import harness, time
from tqlib import table, print_history

ORDERS = [("NL", 10, "u1"), ("NL", 20, "u2"), ("FR", 40, "u1"), ("DE", 7, "u3")]
PAY = [("NL", 5, "u1"), ("FR", 15, "u1"), ("FR", 25, "u1"), ("ES", 9, "u2")]
SETUP = ['DEFINE orders FIELDS {"country":"string","amount":"int","user":"string"}',
         'DEFINE pay FIELDS {"country":"string","amount":"int","user":"string"}']
SETUP += ['STORE orders FOR o%d PAYLOAD {"country":"%s","amount":%d,"user":"%s"}' % ((i,) + r) for i, r in enumerate(ORDERS, 1)]
SETUP += ['STORE pay FOR p%d PAYLOAD {"country":"%s","amount":%d,"user":"%s"}' % ((i,) + r) for i, r in enumerate(PAY, 1)]


def join(left, right, grouped):
    """Full outer join of the two single-query tables (rows [group, value] or [value])."""
    if not grouped:
        return [[left[0][0] if left else None, right[0][0] if right else None]]
    l, r = {x[0]: x[1] for x in left}, {x[0]: x[1] for x in right}
    return [[c, l.get(c), r.get(c)] for c in sorted(set(l) | set(r))]


def fold(rows, f, grouped):
    if not grouped:
        return [[f([(a, u) for _, a, u in rows])]]
    out = {}
    for c, a, u in rows:
        out.setdefault(c, []).append((a, u))
    return [[c, f(v)] for c, v in sorted(out.items())]


avg = lambda v: sum(a for a, _ in v) / len(v)
tot = lambda v: sum(a for a, _ in v)
uniq = lambda v: len({u for _, u in v})
cnt = lambda v: len(v)

# (comparison, the same metric as a single QUERY on each side, fold, grouped)
CASES = [
    ("PLOT avg(amount) OF orders VS avg(amount) OF pay BREAKDOWN BY country", "QUERY %s AVG amount BY country", avg, True),
    ("PLOT unique(user) OF orders VS unique(user) OF pay BREAKDOWN BY country", "QUERY %s COUNT UNIQUE user BY country", uniq, True),
    ("PLOT avg(amount) OF orders VS avg(amount) OF pay", "QUERY %s AVG amount", avg, False),
    # controls that work today
    ("PLOT total(amount) OF orders VS total(amount) OF pay BREAKDOWN BY country", "QUERY %s TOTAL amount BY country", tot, True),
    ("PLOT count OF orders VS count OF pay BREAKDOWN BY country", "QUERY %s COUNT BY country", cnt, True),
]


def same(obs, exp):
    if len(obs) != len(exp):
        return False
    for ro, re_ in zip(obs, exp):
        if len(ro) != len(re_):
            return False
        for a, b in zip(ro, re_):
            if isinstance(b, (int, float)) and not isinstance(b, bool):
                if not isinstance(a, (int, float)) or abs(a - b) > 1e-9:
                    return False
            elif a != b:
                return False
    return True


def main():
    ok = True
    print("=== Q3: PlotQL comparison with avg / unique")
    print_history(SETUP, [c[0] for c in CASES], max_lines=20)
    for shards in (1, 2):
        for flush in (False, True):
            tag = "%d shard(s), %s" % (shards, "after FLUSH" if flush else "in memory")
            srv = harness.Server(shards)
            try:
                bad = [(c, r.strip()) for c, r in srv.send(SETUP, wait=0.1) if not r.startswith("200")]
                if bad:
                    print("  non-200 setup replies:", bad[:3])
                if flush:
                    srv.send(["FLUSH"], wait=0.3)
                    time.sleep(1.5)
                print("  [%s]" % tag)
                for q, single, f, grouped in CASES:
                    sides = srv.send([single % "orders", single % "pay"], wait=0.6)
                    lt, rt = table(sides[0][1])[1], table(sides[1][1])[1]
                    exp = join(lt, rt, grouped)
                    if not (same(lt, fold(ORDERS, f, grouped)) and same(rt, fold(PAY, f, grouped))):
                        print("      note: the single queries themselves differ from the fold over the history here (known, other finding:"
                              " an in-memory aggregate does not filter by event_type): %s -> %s / %s" % (single % "<side>", lt, rt))
                    resp = srv.send([q], wait=1.0)[0][1]
                    cols, rows = table(resp)
                    first = resp.strip().splitlines()[0] if resp.strip() else ""
                    obs = sorted(rows, key=lambda r: str(r[0]))
                    streamed = first.startswith("{")  # a streamed table starts with its schema frame, an error with "<code> <text>"
                    good = streamed and same(obs, exp)
                    shown = ("%s %s" % (cols, obs)) if streamed else first
                    print("      %s\n          observed %s\n          expected %s  (= %s on both sides, joined) -> %s" % (
                        q, shown, exp, single % "<side>", "ok" if good else "VIOLATED"))
                    ok = ok and good
            finally:
                srv.stop()
    print("RESULT:", "correct" if ok else "VIOLATED (comparison with avg()/unique() fails: 'missing avg_amount_sum column')")
    return 0 if ok else 1


if __name__ == "__main__":
    sys.exit(main())
