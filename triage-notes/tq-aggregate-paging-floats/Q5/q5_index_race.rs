//! Q5 throw-away integration test (copied into <repo>/tests/ by repro.sh, removed afterwards).
//!
//! Schedule: a "flusher" registers 300 new segments through the real flusher step
//! `SegmentIndexBuilder::add_segment_entry` (load + insert + save under the shard's flush lock), while a
//! "compactor" does what CompactionWorker::run / the background compactor do: `SegmentIndex::load(shard_dir)`
//! WITHOUT that lock (one load every 2 ms). `load` only reads, so every flush must succeed and the final index must hold 300 entries.
use snel_db::engine::core::segment::segment_index::SegmentIndex;
use snel_db::engine::core::segment::segment_index_builder::SegmentIndexBuilder;
use std::sync::atomic::{AtomicBool, AtomicUsize, Ordering};
use std::sync::Arc;

const FLUSHES: usize = 300;

#[tokio::test(flavor = "multi_thread", worker_threads = 4)]
async fn flush_registers_every_segment_while_compaction_loads_the_index() {
    let dir = tempfile::tempdir().unwrap();
    let shard_dir = dir.path().to_path_buf();
    let flush_lock = Arc::new(tokio::sync::Mutex::new(()));
    let stop = Arc::new(AtomicBool::new(false));
    let loads = Arc::new(AtomicUsize::new(0));

    println!("history: flusher: {FLUSHES} x SegmentIndexBuilder::add_segment_entry (under the flush lock)");
    println!("         compactor: loop {{ SegmentIndex::load(shard_dir); sleep 2 ms }} (no lock), as CompactionWorker::run does");

    let mut compactors = Vec::new();
    for _ in 0..1 {
        let (d, s, n) = (shard_dir.clone(), Arc::clone(&stop), Arc::clone(&loads));
        compactors.push(tokio::spawn(async move {
            while !s.load(Ordering::Relaxed) {
                let _ = SegmentIndex::load(&d).await;
                n.fetch_add(1, Ordering::Relaxed);
                tokio::time::sleep(std::time::Duration::from_millis(2)).await;
            }
        }));
    }

    let mut failures: Vec<(usize, String)> = Vec::new();
    for i in 0..FLUSHES {
        let seg_dir = shard_dir.join(format!("{:05}", i));
        let builder = SegmentIndexBuilder {
            segment_id: i as u64,
            segment_dir: &seg_dir,
            event_type_uids: vec!["uidA".to_string()],
            flush_coordination_lock: Arc::clone(&flush_lock),
        };
        if let Err(e) = builder.add_segment_entry(Some(&shard_dir)).await {
            failures.push((i, e.to_string()));
        }
    }
    stop.store(true, Ordering::Relaxed);
    for c in compactors {
        c.await.unwrap();
    }

    let final_len = SegmentIndex::load(&shard_dir).await.unwrap().len();
    println!("observed: {} unlocked loads; failed flushes: {} of {FLUSHES}; entries in the final index: {final_len}",
        loads.load(Ordering::Relaxed), failures.len());
    for (i, e) in failures.iter().take(5) {
        println!("          flush #{i}: {e}");
    }
    println!("expected: failed flushes: 0; entries in the final index: {FLUSHES}");
    assert!(failures.is_empty(), "{} flushes failed, first: {:?}", failures.len(), failures.first());
    assert_eq!(final_len, FLUSHES);
}
