#!/bin/bash
# Q5 - SegmentIndex::load deletes the segments.idx.tmp of a save that is in flight.
# Copies the throw-away integration test q5_index_race.rs into the scratch repo's tests/, runs it, removes it.
# exit 0 = correct (every flush registered its segment), 1 = violated.
# Usage: [REPO=/var/tmp/tq/repo] [CARGO_TARGET_DIR=/var/tmp/tq/target] ./repro.sh
HERE="$(cd "$(dirname "$0")" && pwd)"
REPO="${REPO:-/var/tmp/tq/repo}"
export CARGO_TARGET_DIR="${CARGO_TARGET_DIR:-/var/tmp/tq/target}"
cp "$HERE/q5_index_race.rs" "$REPO/tests/q5_index_race.rs" || exit 2
trap 'rm -f "$REPO/tests/q5_index_race.rs"' EXIT
cd "$REPO" || exit 2
out=$(cargo test --offline --test q5_index_race -- --nocapture 2>&1)
rc=$?
echo "$out" | grep -E "^history|^ {9}compactor|^observed|^expected|^ {10}flush #|test result|panicked|error(\[|:)" 
if echo "$out" | grep -q "error: could not compile\|error\[E"; then echo "$out" | tail -30; echo "RESULT: build error"; exit 2; fi
if [ $rc -eq 0 ]; then echo "RESULT: correct"; exit 0; fi
echo "RESULT: VIOLATED (a flush failed at the rename of segments.idx.tmp because an unlocked load removed it)"; exit 1
