#!/usr/bin/env python3
"""R1 - wildcard event type ("*") and the per-type read check of QUERY.

One command: python3 repro.py      (server binary: $SNEL_BIN, default /var/tmp/tr/target/debug/snel_db)
exit 0 = every answer is the documented one, exit 1 = violated.

Real server, auth enabled (initial admin admin/adminkey), TCP + HTTP (/command text, /json-command JSON).
Users:  bob  no role, READ on pub_evt only
        nob  no role, no permission
        ann  role read-only, secret_evt explicitly denied (GRANT READ,WRITE then REVOKE READ,WRITE:
             docs/src/commands/user_management.md "Example 4": explicit denial overrides the role)
        vic  role read-only, nothing denied (control: the wildcard keeps working)
        ful  no role, READ on every defined event type (control: may read all the wildcard expands to)
"""
import json
import os
import sys

sys.path.insert(0, os.path.join(os.path.dirname(os.path.abspath(__file__)), "..", "common"))
from harness import Server, AUTH_ON, rows, status  # noqa: E402

A = ("admin", "adminkey")
BOB, NOB, ANN, VIC, FUL = (("bob", "bobkey"), ("nob", "nobkey"), ("ann", "annkey"),
                           ("vic", "vickey"), ("ful", "fulkey"))
checks = []


def check(label, ok, observed, expected):
    checks.append((label, ok))
    print(f"   => {'ok      ' if ok else 'VIOLATED'} {label}: observed {observed}; expected {expected}")


def http_rows(text):
    return rows(text)


def secret_in(rws):
    return any("secret_evt" in r or "TOP-SECRET" in r for r in rws)


def wildcard_json(**extra):
    return json.dumps(dict({"type": "Query", "event_type": "*"}, **extra))


def main():
    s = Server(auth=AUTH_ON).start()
    try:
        for c in ['DEFINE pub_evt FIELDS { "id": "int", "msg": "string" }',
                  'DEFINE secret_evt FIELDS { "id": "int", "msg": "string" }',
                  'STORE pub_evt FOR c1 PAYLOAD {"id":1,"msg":"hello"}',
                  'STORE secret_evt FOR c1 PAYLOAD {"id":1,"msg":"TOP-SECRET"}',
                  'CREATE USER bob WITH KEY bobkey', 'GRANT READ ON pub_evt TO bob',
                  'CREATE USER nob WITH KEY nobkey',
                  'CREATE USER ann WITH KEY annkey WITH ROLES ["read-only"]',
                  'GRANT READ, WRITE ON secret_evt TO ann', 'REVOKE READ, WRITE ON secret_evt FROM ann',
                  'SHOW PERMISSIONS FOR ann',
                  'CREATE USER vic WITH KEY vickey WITH ROLES ["read-only"]',
                  'CREATE USER ful WITH KEY fulkey', 'GRANT READ ON pub_evt, secret_evt TO ful']:
            s.send(c, user=A)

        print("\n== which spellings reach the wildcard (information) ==")
        r = s.send('QUERY *', user=BOB)
        check("TCP text `QUERY *` is refused by the grammar", "ERROR" in r or status(r) and status(r).startswith("400"),
              r.strip().splitlines()[0][:80], "parse error (no text spelling of the wildcard QUERY)")
        r = s.send('QUERY "*"', user=BOB)
        check('TCP text `QUERY "*"` is refused by the grammar', "ERROR" in r, r.strip().splitlines()[0][:80], "parse error")
        st, t = s.http("/command", "QUERY *", user=BOB)
        check("HTTP /command text `QUERY *` is refused by the grammar", st == 400, f"HTTP {st}", "HTTP 400")

        for phase in ("memtable", "after FLUSH"):
            print(f"\n== per-type baseline, {phase} ==")
            for who in (BOB, NOB, ANN):
                r = s.send("QUERY secret_evt", user=who)
                check(f"[{who[0]}] TCP QUERY secret_evt ({phase})", (status(r) or "").startswith("403"),
                      status(r) or f"{len(rows(r))} rows", "403")
                st, t = s.http("/json-command", json.dumps({"type": "Query", "event_type": "secret_evt"}), user=who)
                check(f"[{who[0]}] JSON Query secret_evt ({phase})", st == 403, f"HTTP {st}", "HTTP 403")

            print(f"\n== wildcard over HTTP JSON, {phase} ==")
            for who in (BOB, NOB, ANN):
                for extra in ({}, {"context_id": "c1"}, {"where": {"field": "id", "op": "eq", "value": 1}}):
                    st, t = s.http("/json-command", wildcard_json(**extra), user=who)
                    rws = http_rows(t)
                    check(f"[{who[0]}] JSON Query * {extra or ''} ({phase}): no secret_evt rows, 403",
                          st == 403 and not secret_in(rws),
                          f"HTTP {st}, {len(rws)} rows, secret_evt rows: {secret_in(rws)}",
                          "HTTP 403 (a type the wildcard expands to is not readable)")
            for who in (VIC, FUL, A):
                st, t = s.http("/json-command", wildcard_json(), user=who)
                rws = http_rows(t)
                check(f"[{who[0]}] JSON Query * ({phase}): may read every type, gets both rows",
                      st == 200 and len(rws) == 2, f"HTTP {st}, {len(rws)} rows", "HTTP 200, 2 rows")
            if phase == "memtable":
                s.send("FLUSH", user=A, wait=1.5)
    finally:
        s.cleanup()

    bad = [l for l, ok in checks if not ok]
    print("\n== command history: see the '>>' lines above ==")
    print(f"{len(checks) - len(bad)}/{len(checks)} checks ok")
    for l in bad:
        print("VIOLATED:", l)
    return 1 if bad else 0


if __name__ == "__main__":
    sys.exit(main())
