#!/usr/bin/env python3
"""R2 - read permission of REPLAY, sequence queries and PLOT comparison queries.

One command: python3 repro.py      (server binary: $SNEL_BIN, default /var/tmp/tr/target/debug/snel_db)
exit 0 = every answer is the documented one, exit 1 = violated.

Real server, auth enabled (initial admin admin/adminkey); TCP, HTTP /command (text), HTTP /json-command (JSON).
Users:  bob  no role, READ on pub_evt only
        nob  no role, no permission
        ann  role read-only, secret_evt explicitly denied (GRANT READ,WRITE then REVOKE READ,WRITE)
        ful  no role, READ on pub_evt and secret_evt (control: everything below keeps working)
Parts:  A REPLAY (typed / untyped)   B sequence queries (QUERY .. FOLLOWED BY, PLOT a THEN b)   C PLOT .. VS ..
"""
import json
import os
import sys

sys.path.insert(0, os.path.join(os.path.dirname(os.path.abspath(__file__)), "..", "common"))
from harness import Server, AUTH_ON, rows, status  # noqa: E402

A = ("admin", "adminkey")
BOB, NOB, ANN, FUL = ("bob", "bobkey"), ("nob", "nobkey"), ("ann", "annkey"), ("ful", "fulkey")
checks = []


def check(part, label, ok, observed, expected):
    checks.append((part, label, ok))
    print(f"   => {'ok      ' if ok else 'VIOLATED'} [{part}] {label}: observed {observed}; expected {expected}")


def tcp(s, part, who, cmd, want, nrows=None):
    """want: '403' or 'rows'."""
    r = s.send(cmd, user=who)
    st = status(r) or ""
    rws = rows(r)
    if want == "403":
        ok = st.startswith("403") and not rws
        exp = "403 Read permission denied"
    else:
        ok = not st and (nrows is None or len(rws) == nrows)
        exp = f"{nrows if nrows is not None else 'some'} row(s)"
    check(part, f"TCP [{who[0]}] {cmd}", ok, st or f"{len(rws)} row(s) {json.dumps(rws)[:160]}", exp)


def http(s, part, who, path, body, want, nrows=None):
    code, text = s.http(path, body, user=who)
    rws = rows(text)
    if want == "403":
        ok = code == 403 and not rws
        exp = "HTTP 403"
    else:
        ok = code == 200 and (nrows is None or len(rws) == nrows)
        exp = f"HTTP 200, {nrows if nrows is not None else 'some'} row(s)"
    check(part, f"HTTP {path} [{who[0]}] {body}", ok, f"HTTP {code}, {len(rws)} row(s) {json.dumps(rws)[:160]}", exp)


def main():
    s = Server(auth=AUTH_ON).start()
    try:
        for c in ['DEFINE pub_evt FIELDS { "id": "int", "msg": "string" }',
                  'DEFINE secret_evt FIELDS { "id": "int", "msg": "string" }',
                  'STORE pub_evt FOR c1 PAYLOAD {"id":1,"msg":"hello"}',
                  'STORE secret_evt FOR c1 PAYLOAD {"id":1,"msg":"TOP-SECRET"}',
                  'CREATE USER bob WITH KEY bobkey', 'GRANT READ ON pub_evt TO bob',
                  'CREATE USER nob WITH KEY nobkey',
                  'CREATE USER ann WITH KEY annkey WITH ROLES ["read-only"]',
                  'GRANT READ, WRITE ON secret_evt TO ann', 'REVOKE READ, WRITE ON secret_evt FROM ann',
                  'CREATE USER ful WITH KEY fulkey', 'GRANT READ ON pub_evt, secret_evt TO ful']:
            s.send(c, user=A)

        for phase in ("memtable", "after FLUSH"):
            print(f"\n===== {phase}: baseline =====")
            for who in (BOB, NOB, ANN):
                tcp(s, "base", who, "QUERY secret_evt", "403")

            print(f"\n===== {phase}: A. REPLAY =====")
            for who in (BOB, NOB, ANN):
                tcp(s, "A", who, "REPLAY secret_evt FOR c1", "403")
                tcp(s, "A", who, "REPLAY FOR c1", "403")
                tcp(s, "A", who, 'REPLAY FOR c1 RETURN ["msg"]', "403")
                http(s, "A", who, "/command", "REPLAY FOR c1", "403")
                http(s, "A", who, "/command", "REPLAY secret_evt FOR c1", "403")
                http(s, "A", who, "/json-command", json.dumps({"type": "Replay", "context_id": "c1"}), "403")
                http(s, "A", who, "/json-command",
                     json.dumps({"type": "Replay", "event_type": "*", "context_id": "c1"}), "403")
                http(s, "A", who, "/json-command",
                     json.dumps({"type": "Replay", "event_type": "secret_evt", "context_id": "c1"}), "403")
            # what must keep working
            tcp(s, "A-ok", BOB, "REPLAY pub_evt FOR c1", "rows", 1)
            tcp(s, "A-ok", ANN, "REPLAY pub_evt FOR c1", "rows", 1)
            http(s, "A-ok", BOB, "/json-command",
                 json.dumps({"type": "Replay", "event_type": "pub_evt", "context_id": "c1"}), "rows", 1)
            tcp(s, "A-ok", FUL, "REPLAY FOR c1", "rows", 2)
            tcp(s, "A-ok", FUL, "REPLAY secret_evt FOR c1", "rows", 1)
            tcp(s, "A-ok", A, "REPLAY FOR c1", "rows", 2)
            http(s, "A-ok", FUL, "/json-command", json.dumps({"type": "Replay", "context_id": "c1"}), "rows", 2)

            print(f"\n===== {phase}: B. sequence queries (earlier repair 279a860) =====")
            for who in (BOB, ANN):
                for q in ("QUERY pub_evt FOLLOWED BY secret_evt LINKED BY id",
                          "QUERY pub_evt PRECEDED BY secret_evt LINKED BY id",
                          "QUERY secret_evt FOLLOWED BY pub_evt LINKED BY id",
                          "PLOT COUNT OF pub_evt THEN secret_evt",
                          "PLOT COUNT OF pub_evt -> secret_evt"):
                    tcp(s, "B", who, q, "403")
                    http(s, "B", who, "/command", q, "403")
            # the JSON form has no sequence field: an `event_sequence` key is ignored, the query is a plain pub_evt query
            code, text = s.http("/json-command", json.dumps(
                {"type": "Query", "event_type": "pub_evt",
                 "event_sequence": {"head": {"event": "pub_evt", "field": None},
                                    "links": [["FollowedBy", {"event": "secret_evt", "field": None}]]},
                 "link_field": "id"}), user=BOB)
            check("B", "JSON Query with an event_sequence key [bob]: no secret_evt rows",
                  "TOP-SECRET" not in text and "secret_evt" not in text,
                  f"HTTP {code}, rows {json.dumps(rows(text))[:120]}", "pub_evt rows only (key not part of the JSON form)")
            tcp(s, "B-ok", FUL, "QUERY pub_evt FOLLOWED BY secret_evt LINKED BY id", "rows", 2)

            print(f"\n===== {phase}: C. PLOT comparison (VS) =====")
            for who in (BOB, ANN):
                for q in ("PLOT COUNT OF pub_evt VS COUNT OF secret_evt",
                          "PLOT COUNT OF secret_evt VS COUNT OF pub_evt",
                          "PLOT TOTAL(id) OF pub_evt VS TOTAL(id) OF secret_evt BREAKDOWN BY msg",
                          "PLOT COUNT OF pub_evt VS COUNT OF pub_evt THEN secret_evt"):
                    tcp(s, "C", who, q, "403")
                    http(s, "C", who, "/command", q, "403")
            tcp(s, "C", NOB, "PLOT COUNT OF pub_evt VS COUNT OF secret_evt", "403")
            tcp(s, "C-ok", BOB, "PLOT COUNT OF pub_evt VS COUNT OF pub_evt FILTER id = 1", "rows", 1)
            tcp(s, "C-ok", FUL, "PLOT COUNT OF pub_evt VS COUNT OF secret_evt", "rows", 1)
            tcp(s, "C-ok", A, "PLOT COUNT OF pub_evt VS COUNT OF secret_evt", "rows", 1)
            if phase == "memtable":
                s.send("FLUSH", user=A, wait=1.5)
    finally:
        s.cleanup()

    print("\n== command history: the '>>' lines above ==")
    for part in ("base", "A", "A-ok", "B", "B-ok", "C", "C-ok"):
        sub = [c for c in checks if c[0] == part]
        bad = [c for c in sub if not c[2]]
        print(f"part {part:5}: {len(sub) - len(bad)}/{len(sub)} ok")
    bad = [c for c in checks if not c[2]]
    for c in bad:
        print("VIOLATED:", c[0], c[1])
    return 1 if bad else 0


if __name__ == "__main__":
    sys.exit(main())
