#!/usr/bin/env python3
"""X1 (found while reproducing R2 part C) - aggregates over unflushed events ignore the event type,
so the per-type read check of QUERY is defeated: `QUERY pub_evt COUNT BY msg` returns the values of secret_evt.

One command: python3 repro.py      (server binary: $SNEL_BIN, default /var/tmp/tr/target/debug/snel_db)
exit 0 = correct, 1 = violated. Real server over TCP, auth enabled; bob has READ on pub_evt only.
"""
import json
import os
import sys

sys.path.insert(0, os.path.join(os.path.dirname(os.path.abspath(__file__)), "..", "common"))
from harness import Server, AUTH_ON, rows, status  # noqa: E402

A = ("admin", "adminkey")
BOB = ("bob", "bobkey")
checks = []


def expect(s, who, cmd, want):
    r = s.send(cmd, user=who)
    got = rows(r)
    ok = sorted(map(json.dumps, got)) == sorted(map(json.dumps, want))
    checks.append((f"[{who[0]}] {cmd}", ok))
    print(f"   => {'ok      ' if ok else 'VIOLATED'} observed {json.dumps(got)}; expected {json.dumps(want)}")


def main():
    s = Server(auth=AUTH_ON).start()
    try:
        for c in ['DEFINE pub_evt FIELDS { "id": "int", "msg": "string" }',
                  'DEFINE secret_evt FIELDS { "id": "int", "msg": "string" }',
                  'STORE pub_evt FOR c1 PAYLOAD {"id":1,"msg":"hello"}',
                  'STORE secret_evt FOR c1 PAYLOAD {"id":7,"msg":"TOP-SECRET"}',
                  'STORE secret_evt FOR c2 PAYLOAD {"id":9,"msg":"TOP-SECRET-2"}',
                  'CREATE USER bob WITH KEY bobkey', 'GRANT READ ON pub_evt TO bob']:
            s.send(c, user=A)
        r = s.send("QUERY secret_evt", user=BOB)
        checks.append(("[bob] QUERY secret_evt -> 403", (status(r) or "").startswith("403")))
        for phase in ("memtable", "after FLUSH"):
            print(f"\n== {phase} ==")
            expect(s, BOB, "QUERY pub_evt RETURN [msg]", [[r0[0], r0[1], r0[2], r0[3], "hello"] for r0 in rows(s.send("QUERY pub_evt RETURN [msg]", user=A, quiet=True))])
            expect(s, BOB, "QUERY pub_evt COUNT", [[1]])
            expect(s, BOB, "QUERY pub_evt TOTAL id", [[1]])
            expect(s, BOB, "QUERY pub_evt COUNT BY msg", [["hello", 1]])
            expect(s, BOB, "QUERY pub_evt MAX id BY msg", [["hello", 1]])
            expect(s, BOB, "QUERY pub_evt COUNT WHERE id = 7", [])
            expect(s, BOB, "PLOT COUNT OF pub_evt BREAKDOWN BY msg", [["hello", 1]])
            expect(s, A, "PLOT COUNT OF pub_evt VS COUNT OF secret_evt", [[1, 2]])
            if phase == "memtable":
                s.send("FLUSH", user=A, wait=1.5)
    finally:
        s.cleanup()
    bad = [l for l, ok in checks if not ok]
    print(f"\n{len(checks) - len(bad)}/{len(checks)} checks ok")
    for l in bad:
        print("VIOLATED:", l)
    return 1 if bad else 0


if __name__ == "__main__":
    sys.exit(main())
