"""Shared helpers for the repro scripts in /var/tmp/tr/out/<item>/.

A repro starts its own sneldb server (binary: $SNEL_BIN, default
/var/tmp/tr/target/debug/snel_db) on a private port with a throw-away data
directory, talks to it over TCP, and kills only the pid it started.
"""
import hashlib
import hmac
import json
import os
import shutil
import signal
import socket
import subprocess
import tempfile
import time

SNEL_BIN = os.environ.get("SNEL_BIN", "/var/tmp/tr/target/debug/snel_db")

CFG = '''
[wal]
enabled = true
fsync = false
buffered = false
buffer_size = "1KB"
dir = "{d}/wal/"
flush_each_write = true
fsync_every_n = 1
conservative_mode = false
archive_dir = "{d}/wal/archived/"
compression_level = 3
compression_algorithm = "zstd"
[engine]
fill_factor = {ff}
data_dir = "{d}/cols"
index_dir = "{d}/index/"
shard_count = {shards}
event_per_zone = {epz}
compaction_interval = {comp_int}
sys_io_threshold = 100000
sys_memory_threshold_mb = "1MB"
max_inflight_passives = 8
segments_per_merge = {spm}
compaction_max_shard_concurrency = 1
[schema]
def_dir="{d}/schema/"
[server]
socket_path = "{d}/sock"
log_level = "error"
output_format = "json"
tcp_addr = "127.0.0.1:{port}"
http_addr = "127.0.0.1:{port1}"
ws_addr = "127.0.0.1:{port2}"
auth_token = "t"
[playground]
enabled = false
allow_unauthenticated = true
[auth]
{auth}
[logging]
log_dir = "{d}/logs"
stdout_level = "{loglevel}"
file_level = "{loglevel}"
[query]
zone_index_cache_max_entries = 256
column_block_cache_max_bytes = "64MB"
zone_surf_cache_max_bytes = "10MB"
[time]
timezone = "UTC"
week_start = "Mon"
use_calendar_bucketing = true
'''

AUTH_OFF = 'bypass_auth = true\nrate_limit_enabled = false'
AUTH_ON = ('bypass_auth = false\nrate_limit_enabled = false\n'
           'initial_admin_user = "admin"\ninitial_admin_key = "adminkey"')


def free_port():
    # three consecutive ports (tcp / http / ws); retry until all are free
    for _ in range(50):
        s = socket.socket()
        s.bind(("127.0.0.1", 0))
        p = s.getsockname()[1]
        s.close()
        if p + 2000 > 65000:
            continue
        ok = True
        for q in (p, p + 1000, p + 2000):
            t = socket.socket()
            try:
                t.bind(("127.0.0.1", q))
            except OSError:
                ok = False
            finally:
                t.close()
        if ok:
            return p
    raise RuntimeError("no free port")


class Server:
    def __init__(self, epz=4, ff=2, shards=1, comp_int=3000, spm=2, auth=AUTH_OFF,
                 workdir=None, loglevel="error"):
        base = os.environ.get("TR_TMP", "/var/tmp/tr/run")
        if workdir is None:
            os.makedirs(base, exist_ok=True)
        self.d = workdir or tempfile.mkdtemp(prefix="snel_repro_", dir=base)
        self.own_dir = workdir is None
        self.params = dict(epz=epz, ff=ff, shards=shards, comp_int=comp_int, spm=spm,
                           auth=auth, loglevel=loglevel)
        self.proc = None
        self.port = None
        self.history = []

    def start(self):
        self.port = free_port()
        cfg = CFG.format(d=self.d, port=self.port, port1=self.port + 1000,
                         port2=self.port + 2000, **self.params)
        open(f"{self.d}/cfg.toml", "w").write(cfg)
        env = dict(os.environ, SNELDB_CONFIG=f"{self.d}/cfg.toml", SNELDB_PRESERVE_DATA="1",
                   RUST_LOG=self.params["loglevel"])
        self.log = open(f"{self.d}/server.log", "ab")
        self.proc = subprocess.Popen([SNEL_BIN], cwd=self.d, env=env, stdout=self.log,
                                     stderr=subprocess.STDOUT)
        for _ in range(100):
            try:
                socket.create_connection(("127.0.0.1", self.port), timeout=0.2).close()
                return self
            except OSError:
                time.sleep(0.1)
        raise RuntimeError("server did not start; see " + self.d + "/server.log")

    def stop(self, sig=signal.SIGTERM):
        if self.proc and self.proc.poll() is None:
            self.proc.send_signal(sig)           # only the pid we started
            try:
                self.proc.wait(timeout=10)
            except subprocess.TimeoutExpired:
                self.proc.kill()
                self.proc.wait()
        self.proc = None

    def cleanup(self):
        self.stop()
        if self.own_dir:
            shutil.rmtree(self.d, ignore_errors=True)

    def send(self, cmd, wait=0.5, user=None, quiet=False):
        """Send one command on a fresh connection; return the raw reply text."""
        wire = cmd
        if user:
            name, key = user
            sig = hmac.new(key.encode(), cmd.encode(), hashlib.sha256).hexdigest()
            wire = f"{name}:{sig}:{cmd}"
        s = socket.create_connection(("127.0.0.1", self.port), timeout=5)
        s.settimeout(wait)
        s.sendall((wire + "\n").encode())
        buf = b""
        while True:
            try:
                d = s.recv(65536)
                if not d:
                    break
                buf += d
            except socket.timeout:
                break
        s.close()
        text = buf.decode(errors="replace")
        if not quiet:
            who = f"[{user[0]}] " if user else ""
            print(f">> {who}{cmd}")
            for line in text.splitlines():
                if line and '"type":"schema"' not in line:
                    print("   " + line)
        self.history.append((cmd, text))
        return text


def _http(self, path, body, user=None, inline=False, quiet=False):
    """POST body to /command or /json-command; returns (http_status, text).
    user=(name,key): X-Auth-User / X-Auth-Signature headers over the body
    (inline=True: `user:sig:cmd` in the body instead, /command only)."""
    import http.client
    headers = {"Authorization": "Bearer t", "Content-Type": "text/plain"}
    wire = body
    if user:
        name, key = user
        sig = hmac.new(key.encode(), body.strip().encode(), hashlib.sha256).hexdigest()
        if inline:
            wire = f"{name}:{sig}:{body}"
        else:
            headers["X-Auth-User"] = name
            headers["X-Auth-Signature"] = sig
    c = http.client.HTTPConnection("127.0.0.1", self.port + 1000, timeout=10)
    c.request("POST", path, body=wire.encode(), headers=headers)
    r = c.getresponse()
    text = r.read().decode(errors="replace")
    c.close()
    if not quiet:
        who = f"[{user[0]}] " if user else ""
        print(f">> HTTP POST {path} {who}{body}")
        print(f"   HTTP {r.status}")
        for line in text.splitlines():
            if line:
                print("   " + line[:600])
    self.history.append((f"POST {path} {body}", text))
    return r.status, text


Server.http = _http


def rows(reply):
    """All rows of a streamed JSON reply (list of lists)."""
    out = []
    for line in reply.splitlines():
        line = line.strip()
        if line.startswith("{"):
            try:
                j = json.loads(line)
            except ValueError:
                continue
            if j.get("type") == "batch":
                out.extend(j["rows"])
    return out


def columns(reply):
    for line in reply.splitlines():
        if line.startswith("{") and '"type":"schema"' in line:
            return [c["name"] for c in json.loads(line)["columns"]]
    return None


def status(reply):
    """Leading status line such as '200 OK' / '403 Forbidden', or None for a stream."""
    first = reply.strip().splitlines()[0] if reply.strip() else ""
    if first[:3].isdigit():
        return first
    if first.startswith("{"):
        try:
            j = json.loads(first)
            if "status" in j:
                return f'{j["status"]} {j.get("message", "")}'
        except ValueError:
            pass
    return None
