#!/usr/bin/env python3
"""S1: a sequence WHERE on a FLOAT field drops the rows whose value has a fraction.
purchases with amount 80.25, 99.5, 70, each preceded by a page_view of the same user_id; u3 has an earlier
purchase of 20.5 as a control (it is the nearest one and must be skipped by `> 50`, taken by `< 90`).
7 events: they stay in the memtable in the "in memory" placements (capacity 8).  exit 0 = correct, 1 = violated."""
import os, sys
sys.path.insert(0, os.path.join(os.path.dirname(os.path.abspath(__file__)), "..", "common"))
import harness as h
DEFS = ['DEFINE page_view FIELDS {"page":"string","user_id":"string","at":"int"}',
        'DEFINE purchase FIELDS {"order_id":"int","user_id":"string","at":"int","amount":"float"}']
H = DEFS + ['STORE page_view FOR c1 PAYLOAD {"page":"/a","user_id":"u1","at":5}',
            'STORE purchase FOR c2 PAYLOAD {"order_id":1,"user_id":"u1","at":10,"amount":80.25}',
            'STORE page_view FOR c3 PAYLOAD {"page":"/b","user_id":"u2","at":5}',
            'STORE purchase FOR c4 PAYLOAD {"order_id":2,"user_id":"u2","at":10,"amount":99.5}',
            'STORE page_view FOR c5 PAYLOAD {"page":"/b","user_id":"u3","at":5}',
            'STORE purchase FOR c6 PAYLOAD {"order_id":3,"user_id":"u3","at":10,"amount":70}',
            'STORE purchase FOR c8 PAYLOAD {"order_id":4,"user_id":"u3","at":7,"amount":20.5}']
ctx = lambda rows, resp: sorted(h.flat(r).get("context_id") for r in rows)
def want(exp):
    return lambda rows, resp: (ctx(rows, resp) == exp, "contexts = %r" % ctx(rows, resp))
ok = True
ok &= h.check('S1.a  control: plain query  QUERY purchase WHERE amount > 50', H,
    'QUERY purchase WHERE amount > 50', None, row_pred=want(["c2", "c4", "c6"]), describe="contexts = ['c2', 'c4', 'c6']")
ok &= h.check('S1.b  sequence query WHERE purchase.amount > 50 (amounts 80.25, 99.5, 70; 20.5)', H,
    'QUERY page_view FOLLOWED BY purchase LINKED BY user_id USING TIME at WHERE purchase.amount > 50', None,
    row_pred=want(["c1", "c2", "c3", "c4", "c5", "c6"]), describe="contexts = ['c1', 'c2', 'c3', 'c4', 'c5', 'c6']")
ok &= h.check('S1.c  the same with PRECEDED BY (anchor side carries the float)', H,
    'QUERY purchase PRECEDED BY page_view LINKED BY user_id USING TIME at WHERE purchase.amount > 50', None,
    row_pred=want(["c1", "c2", "c3", "c4", "c5", "c6"]), describe="contexts = ['c1', 'c2', 'c3', 'c4', 'c5', 'c6']")
ok &= h.check('S1.d  upper bound: WHERE purchase.amount < 90 keeps 80.25 and, for u3, the nearer 20.5', H,
    'QUERY page_view FOLLOWED BY purchase LINKED BY user_id USING TIME at WHERE purchase.amount < 90', None,
    row_pred=want(["c1", "c2", "c5", "c8"]), describe="contexts = ['c1', 'c2', 'c5', 'c8']")
print("RESULT:", "correct" if ok else "VIOLATED")
sys.exit(0 if ok else 1)
