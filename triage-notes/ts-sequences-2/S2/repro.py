#!/usr/bin/env python3
"""S2: numeric-looking STRING link values are folded together.
user_id is a string field; page_view user_id "007" and purchase user_id "7" are different users and must not be
paired; "007" with "007" and "7" with "7" must be.  exit 0 = correct, 1 = violated."""
import os, sys
sys.path.insert(0, os.path.join(os.path.dirname(os.path.abspath(__file__)), "..", "common"))
import harness as h
DEFS = ['DEFINE page_view FIELDS {"page":"string","user_id":"string","at":"int"}',
        'DEFINE purchase FIELDS {"order_id":"int","user_id":"string","at":"int"}']
ctx = lambda rows, resp: sorted(h.flat(r).get("context_id") for r in rows)
def want(exp):
    return lambda rows, resp: (ctx(rows, resp) == exp, "contexts = %r" % ctx(rows, resp))
Q = 'QUERY page_view FOLLOWED BY purchase LINKED BY user_id USING TIME at'
ok = True
Ha = DEFS + ['STORE page_view FOR c1 PAYLOAD {"page":"/a","user_id":"007","at":5}',
             'STORE purchase FOR c2 PAYLOAD {"order_id":1,"user_id":"7","at":10}']
ok &= h.check('S2.a  page_view user_id "007", purchase user_id "7": no pair', Ha, Q, None,
              row_pred=want([]), describe="contexts = []")
Hb = DEFS + ['STORE page_view FOR c1 PAYLOAD {"page":"/a","user_id":"007","at":5}',
             'STORE purchase FOR c2 PAYLOAD {"order_id":1,"user_id":"7","at":10}',
             'STORE page_view FOR c3 PAYLOAD {"page":"/b","user_id":"7","at":6}',
             'STORE purchase FOR c4 PAYLOAD {"order_id":2,"user_id":"007","at":20}',
             'STORE page_view FOR c5 PAYLOAD {"page":"/c","user_id":"u9","at":7}',
             'STORE purchase FOR c6 PAYLOAD {"order_id":3,"user_id":"u9","at":30}']
def pairs_b(rows, resp):
    c = [h.flat(r).get("context_id") for r in rows]
    p = sorted(tuple(c[i:i + 2]) for i in range(0, len(c), 2))
    return p == [("c1", "c4"), ("c3", "c2"), ("c5", "c6")], "pairs = %r" % p
ok &= h.check('S2.b  "007"->"007", "7"->"7" and a non-numeric control "u9"->"u9" are each paired with their own user', Hb, Q, None,
              row_pred=pairs_b, describe="pairs = [('c1', 'c4'), ('c3', 'c2'), ('c5', 'c6')]")
# mixed placement: the page_views are flushed, the purchases are stored afterwards and stay in the memtable
Hm_pre = DEFS + ['STORE page_view FOR c1 PAYLOAD {"page":"/a","user_id":"007","at":5}',
                 'STORE page_view FOR c3 PAYLOAD {"page":"/b","user_id":"7","at":6}',
                 'STORE page_view FOR c5 PAYLOAD {"page":"/c","user_id":"1.50","at":7}']
Hm_post = ['STORE purchase FOR c2 PAYLOAD {"order_id":1,"user_id":"7","at":10}',
           'STORE purchase FOR c4 PAYLOAD {"order_id":2,"user_id":"007","at":20}',
           'STORE purchase FOR c6 PAYLOAD {"order_id":3,"user_id":"1.5","at":30}',
           'STORE purchase FOR c7 PAYLOAD {"order_id":4,"user_id":"1.50","at":40}']
def pairs_m(rows, resp):
    c = [h.flat(r).get("context_id") for r in rows]
    p = sorted(tuple(c[i:i + 2]) for i in range(0, len(c), 2))
    return p == [("c1", "c4"), ("c3", "c2"), ("c5", "c7")], "pairs = %r" % p
okm = True
print("=== S2.m  mixed placement: page_views flushed, purchases in the memtable (1 and 2 shards)")
for c in Hm_pre + ["FLUSH"] + Hm_post + [Q]:
    print("   ", c)
for shards in (1, 2):
    hist, resp = h.run_history(Hm_pre, Q, shards, True, post=Hm_post)
    good, obs = pairs_m(h.parse_rows(resp), resp)
    print("  [%d shard(s), pv flushed / purchase in memory] observed: %s" % (shards, obs))
    print("  [%d shard(s), pv flushed / purchase in memory] expected: pairs = [('c1', 'c4'), ('c3', 'c2'), ('c5', 'c7')] -> %s" % (shards, "ok" if good else "VIOLATED"))
    okm &= good
ok &= okm
# control: an INT link field keeps linking equal numbers (must stay as it is)
DEFI = ['DEFINE pvi FIELDS {"page":"string","uid":"int","at":"int"}',
        'DEFINE pui FIELDS {"order_id":"int","uid":"int","at":"int"}']
Hc = DEFI + ['STORE pvi FOR c1 PAYLOAD {"page":"/a","uid":7,"at":5}',
             'STORE pui FOR c2 PAYLOAD {"order_id":1,"uid":7,"at":10}',
             'STORE pvi FOR c3 PAYLOAD {"page":"/a","uid":8,"at":5}',
             'STORE pui FOR c4 PAYLOAD {"order_id":1,"uid":9,"at":10}']
ok &= h.check('S2.c  control: int link field, 7 -> 7 paired, 8 / 9 not', Hc,
              'QUERY pvi FOLLOWED BY pui LINKED BY uid USING TIME at', None,
              row_pred=want(["c1", "c2"]), describe="contexts = ['c1', 'c2']")
# control: a FLOAT link field: 7 (JSON integer) and 7.0 are the same number, 7.5 links to 7.5 only
DEFF = ['DEFINE pvf FIELDS {"page":"string","uid":"float","at":"int"}',
        'DEFINE puf FIELDS {"order_id":"int","uid":"float","at":"int"}']
Hd = DEFF + ['STORE pvf FOR c1 PAYLOAD {"page":"/a","uid":7,"at":5}',
             'STORE puf FOR c2 PAYLOAD {"order_id":1,"uid":7.0,"at":10}',
             'STORE pvf FOR c3 PAYLOAD {"page":"/a","uid":7.5,"at":5}',
             'STORE puf FOR c4 PAYLOAD {"order_id":1,"uid":7.5,"at":10}',
             'STORE pvf FOR c5 PAYLOAD {"page":"/a","uid":8.5,"at":5}',
             'STORE puf FOR c6 PAYLOAD {"order_id":1,"uid":8,"at":10}']
ok &= h.check('S2.d  control: float link field, 7 -> 7.0 and 7.5 -> 7.5 paired, 8.5 / 8 not', Hd,
              'QUERY pvf FOLLOWED BY puf LINKED BY uid USING TIME at', None,
              row_pred=want(["c1", "c2", "c3", "c4"]), describe="contexts = ['c1', 'c2', 'c3', 'c4']")
print("RESULT:", "correct" if ok else "VIOLATED")
sys.exit(0 if ok else 1)
