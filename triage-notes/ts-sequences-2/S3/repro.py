#!/usr/bin/env python3
"""S3: a sequence WHERE with a cross-event OR, and an unprefixed condition on a field only one side has.
exit 0 = correct, 1 = violated."""
import os, sys
sys.path.insert(0, os.path.join(os.path.dirname(os.path.abspath(__file__)), "..", "common"))
import harness as h
DEFS = ['DEFINE page_view FIELDS {"page":"string","user_id":"string","at":"int"}',
        'DEFINE purchase FIELDS {"order_id":"int","user_id":"string","at":"int"}']
#  u1: page /a, order 1     -> left side of the OR holds
#  u2: page /b, order 2     -> right side holds
#  u3: page /b, order 3     -> neither
#  u4: page /a, order 2     -> both (control: the only pair an AND would return)
H = DEFS + ['STORE page_view FOR c1 PAYLOAD {"page":"/a","user_id":"u1","at":5}',
            'STORE purchase FOR c2 PAYLOAD {"order_id":1,"user_id":"u1","at":10}',
            'STORE page_view FOR c3 PAYLOAD {"page":"/b","user_id":"u2","at":5}',
            'STORE purchase FOR c4 PAYLOAD {"order_id":2,"user_id":"u2","at":10}',
            'STORE page_view FOR c5 PAYLOAD {"page":"/b","user_id":"u3","at":5}',
            'STORE purchase FOR c6 PAYLOAD {"order_id":3,"user_id":"u3","at":10}']
H4 = H + ['STORE page_view FOR c7 PAYLOAD {"page":"/a","user_id":"u4","at":5}',
          'STORE purchase FOR c8 PAYLOAD {"order_id":2,"user_id":"u4","at":10}']
SEQ = 'QUERY page_view FOLLOWED BY purchase LINKED BY user_id USING TIME at '
def pairs(rows, resp):
    c = [h.flat(r).get("context_id") for r in rows]
    return sorted(tuple(c[i:i + 2]) for i in range(0, len(c), 2))
def want(exp):
    return lambda rows, resp: (pairs(rows, resp) == exp, "pairs = %r" % pairs(rows, resp))
ok = True
ok &= h.check('S3.a  cross-event OR (no pair satisfies both sides)', H,
    SEQ + 'WHERE page_view.page = "/a" OR purchase.order_id = 2', None,
    row_pred=want([("c1", "c2"), ("c3", "c4")]), describe="pairs = [('c1', 'c2'), ('c3', 'c4')]")
ok &= h.check('S3.b  cross-event OR with a pair that satisfies both sides: the OR behaves as AND', H4,
    SEQ + 'WHERE page_view.page = "/a" OR purchase.order_id = 2', None,
    row_pred=want([("c1", "c2"), ("c3", "c4"), ("c7", "c8")]), describe="pairs = [('c1', 'c2'), ('c3', 'c4'), ('c7', 'c8')]")
ok &= h.check('S3.c  NOT over a cross-event AND: NOT (page = "/a" AND order_id = 2) keeps every pair but (c7,c8)', H4,
    SEQ + 'WHERE NOT (page_view.page = "/a" AND purchase.order_id = 2)', None,
    row_pred=want([("c1", "c2"), ("c3", "c4"), ("c5", "c6")]), describe="pairs = [('c1', 'c2'), ('c3', 'c4'), ('c5', 'c6')]")
ok &= h.check('S3.d  unprefixed field that only page_view has: WHERE page = "/a"', H,
    SEQ + 'WHERE page = "/a"', None,
    row_pred=want([("c1", "c2")]), describe="pairs = [('c1', 'c2')]")
ok &= h.check('S3.e  control: the prefixed spelling of S3.d', H,
    SEQ + 'WHERE page_view.page = "/a"', None,
    row_pred=want([("c1", "c2")]), describe="pairs = [('c1', 'c2')]")
ok &= h.check('S3.f  control: cross-event AND', H4,
    SEQ + 'WHERE page_view.page = "/a" AND purchase.order_id = 2', None,
    row_pred=want([("c7", "c8")]), describe="pairs = [('c7', 'c8')]")
print("RESULT:", "correct" if ok else "VIOLATED")
sys.exit(0 if ok else 1)
