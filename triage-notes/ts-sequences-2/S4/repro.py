#!/usr/bin/env python3
"""S4: the response of a sequence query drops repeated events: one purchase that is the partner of several
page_views is printed only once, so the later sequences come out incomplete.
Expected (docs: "The query returns both events from each matched sequence"): 2 rows per sequence.
exit 0 = correct, 1 = violated."""
import os, sys
sys.path.insert(0, os.path.join(os.path.dirname(os.path.abspath(__file__)), "..", "common"))
import harness as h
DEFS = ['DEFINE page_view FIELDS {"page":"string","user_id":"string","at":"int"}',
        'DEFINE purchase FIELDS {"order_id":"int","user_id":"string","at":"int"}']
H = DEFS + ['STORE page_view FOR c1 PAYLOAD {"page":"/a","user_id":"u1","at":1}',
            'STORE page_view FOR c2 PAYLOAD {"page":"/b","user_id":"u1","at":2}',
            'STORE page_view FOR c3 PAYLOAD {"page":"/c","user_id":"u1","at":3}',
            'STORE purchase FOR c4 PAYLOAD {"order_id":1,"user_id":"u1","at":10}',
            'STORE page_view FOR c5 PAYLOAD {"page":"/a","user_id":"u2","at":1}',
            'STORE purchase FOR c6 PAYLOAD {"order_id":2,"user_id":"u2","at":10}']
def seqs(rows, resp):
    c = [h.flat(r).get("context_id") for r in rows]
    return c
def want(exp_pairs):
    def pred(rows, resp):
        c = seqs(rows, resp)
        p = sorted(tuple(c[i:i + 2]) for i in range(0, len(c), 2))
        return p == sorted(exp_pairs), "%d rows, pairs = %r" % (len(c), p)
    return pred
ok = True
E = [("c1", "c4"), ("c2", "c4"), ("c3", "c4"), ("c5", "c6")]
ok &= h.check('S4.a  three page_views of u1 are all followed by the same purchase c4', H,
    'QUERY page_view FOLLOWED BY purchase LINKED BY user_id USING TIME at', None,
    row_pred=want(E), describe="8 rows, pairs = %r" % sorted(E))
E2 = [("c1", "c4"), ("c2", "c4"), ("c3", "c4")]
ok &= h.check('S4.b  LIMIT 3 counts sequences: 3 sequences = 6 rows', H,
    'QUERY page_view FOLLOWED BY purchase LINKED BY user_id USING TIME at WHERE page_view.user_id = "u1" LIMIT 3', None,
    row_pred=want(E2), describe="6 rows, pairs = %r" % sorted(E2))
# PRECEDED BY: purchases d2, d3 are both preceded by the same page_view d1
H3 = DEFS + ['STORE page_view FOR d1 PAYLOAD {"page":"/a","user_id":"u1","at":1}',
             'STORE purchase FOR d2 PAYLOAD {"order_id":1,"user_id":"u1","at":10}',
             'STORE purchase FOR d3 PAYLOAD {"order_id":2,"user_id":"u1","at":20}']
E3 = [("d1", "d2"), ("d1", "d3")]
ok &= h.check('S4.c  PRECEDED BY: two purchases preceded by the same page_view', H3,
    'QUERY purchase PRECEDED BY page_view LINKED BY user_id USING TIME at', None,
    row_pred=want(E3), describe="4 rows, pairs = %r" % sorted(E3))
print("RESULT:", "correct" if ok else "VIOLATED")
sys.exit(0 if ok else 1)
