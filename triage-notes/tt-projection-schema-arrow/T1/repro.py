#!/usr/bin/env python3
"""T1 - SINCE .. USING <payload time field> + WHERE + RETURN that omits the time field returns 0 rows after FLUSH.

C02 (projection): the rows of `Q RETURN [k]` must be the rows of `Q` (RETURN only narrows the columns).
History (real server over TCP, 1 and 2 shards, in memory and after FLUSH in the same run):
    DEFINE ev FIELDS {"k":"string","created_at":"datetime"}
    STORE ev FOR c1 PAYLOAD {"k":"a","created_at":"2025-01-01T00:00:00Z"}
    STORE ev FOR c2 PAYLOAD {"k":"b","created_at":"2025-01-03T00:00:00Z"}     <- the only match
    STORE ev FOR c3 PAYLOAD {"k":"b","created_at":"2025-01-01T12:00:00Z"}
    QUERY ev SINCE "2025-01-02T00:00:00Z" USING created_at WHERE k = "b" RETURN [k]     expected: 1 row (c2, k=b)
controls (correct today): the same without RETURN, without WHERE, and with RETURN [k, created_at];
also ORDER BY / OFFSET variants of the failing shape.
exit 0 = correct, 1 = violated.   Usage: [SNEL_BIN=...] python3 repro.py
"""
import os, sys, time
sys.path.insert(0, os.path.join(os.path.dirname(os.path.abspath(__file__)), "..", "common"))
import harness
from tqlib import table

SETUP = [
    'DEFINE ev FIELDS {"k":"string","created_at":"datetime"}',
    'STORE ev FOR c1 PAYLOAD {"k":"a","created_at":"2025-01-01T00:00:00Z"}',
    'STORE ev FOR c2 PAYLOAD {"k":"b","created_at":"2025-01-03T00:00:00Z"}',
    'STORE ev FOR c3 PAYLOAD {"k":"b","created_at":"2025-01-01T12:00:00Z"}',
]
S = 'QUERY ev SINCE "2025-01-02T00:00:00Z" USING created_at'
# (query, expected context ids, expected payload columns after the 4 core columns)
QUERIES = [
    (S + ' WHERE k = "b" RETURN [k]', ["c2"], ["k"]),                       # the item
    (S + ' WHERE k = "b" RETURN [k] ORDER BY k', ["c2"], ["k"]),
    (S + ' WHERE k = "b" OR k = "a" RETURN [k]', ["c2"], ["k"]),
    (S + ' WHERE k = "b"', ["c2"], ["k", "created_at"]),                     # controls
    (S + ' RETURN [k]', ["c2"], ["k"]),
    (S + ' WHERE k = "b" RETURN [k, created_at]', ["c2"], ["k", "created_at"]),
    ('QUERY ev WHERE k = "b" RETURN [k]', ["c2", "c3"], ["k"]),
    # second, independent cause with the same symptom (see ROOTCAUSE.md, "T1b"): a loaded-but-not-returned
    # column that sorts after the returned ones + ORDER BY -> 0 rows, in memory too; no SINCE involved
    ('QUERY ev WHERE k = "b" AND created_at >= "2025-01-01T00:00:00Z" RETURN [created_at] ORDER BY created_at', ["c2", "c3"], ["created_at"]),
    ('QUERY ev WHERE k = "b" AND created_at >= "2025-01-01T00:00:00Z" RETURN [created_at]', ["c2", "c3"], ["created_at"]),
]
CORE = ["context_id", "event_type", "timestamp", "event_id"]


def main():
    ok = True
    print("=== T1: SINCE USING <payload time field> + WHERE + RETURN without the time field")
    print("history:")
    for c in SETUP:
        print("   ", c)
    for shards in (1, 2):
        srv = harness.Server(shards)
        try:
            bad = [(c, r.strip()) for c, r in srv.send(SETUP, wait=0.2) if not r.startswith("200")]
            if bad:
                print("  non-200 setup replies:", bad)
                ok = False
            for phase in ("in memory", "after FLUSH"):
                if phase == "after FLUSH":
                    srv.send(["FLUSH"], wait=0.3)
                    time.sleep(1.5)
                for q, want_ctx, want_cols in QUERIES:
                    cols, rows = table(srv.send([q], wait=0.8)[0][1])
                    got_ctx = sorted(r[cols.index("context_id")] for r in rows) if rows else []
                    good = got_ctx == want_ctx and cols == CORE + want_cols
                    print("  [%d shard(s), %s] %s" % (shards, phase, q))
                    print("      observed: contexts %s, columns %s" % (got_ctx, cols[4:]))
                    print("      expected: contexts %s, columns %s -> %s" % (want_ctx, want_cols, "ok" if good else "VIOLATED"))
                    ok = ok and good
        finally:
            srv.stop()
    print("RESULT:", "correct" if ok else "VIOLATED (matching event dropped when RETURN omits the SINCE time field)")
    return 0 if ok else 1


if __name__ == "__main__":
    sys.exit(main())
