#!/usr/bin/env python3
"""T2 - DEFINE accepts payload fields named like the core fields; their values are silently lost.

C06/C07: what STORE accepted must come back from QUERY (round trip), or the command that makes this impossible
must be refused. For each core name N in (timestamp, event_id, context_id, event_type):
    DEFINE t_N FIELDS {N: <type>, "n": "int"}
    STORE t_N FOR c5 PAYLOAD {N: <value>, "n": 1}
    QUERY t_N            (in memory, and after FLUSH)   and   QUERY t_N WHERE N = <value>
correct = the DEFINE is refused with a 4xx, OR (STORE accepted => the payload value of N comes back and the WHERE finds the row).
Also the task's combined example (timestamp + event_id in one schema).
Placements: shards {1,2}; in memory and after FLUSH in the same run.
exit 0 = correct, 1 = violated.   Usage: [SNEL_BIN=...] python3 repro.py
"""
import json, os, sys, time
sys.path.insert(0, os.path.join(os.path.dirname(os.path.abspath(__file__)), "..", "common"))
import harness
from tqlib import table

CASES = [  # (event type, schema, payload, {core-named field: stored value})
    ("cc", {"timestamp": "int", "event_id": "string", "n": "int"}, {"timestamp": 5, "event_id": "abc", "n": 1}, {"timestamp": 5, "event_id": "abc"}),
    ("t_ts", {"timestamp": "int", "n": "int"}, {"timestamp": 5, "n": 1}, {"timestamp": 5}),
    ("t_id", {"event_id": "int", "n": "int"}, {"event_id": 7, "n": 1}, {"event_id": 7}),
    ("t_ctx", {"context_id": "string", "n": "int"}, {"context_id": "other", "n": 1}, {"context_id": "other"}),
    ("t_et", {"event_type": "string", "n": "int"}, {"event_type": "zzz", "n": 1}, {"event_type": "zzz"}),
]


def status(resp):
    head = resp.strip().split(" ", 1)[0] if resp.strip() else ""
    return int(head) if head.isdigit() else (200 if resp.lstrip().startswith("{") else 0)


def rows_of(resp):
    cols, rows = table(resp)
    out = []
    for r in rows:
        d = dict(zip(cols, r))
        p = d.pop("payload", None)
        if isinstance(p, dict):
            d = dict(d, **{"payload." + k: v for k, v in p.items()})
        out.append(d)
    return out


def lit(v):
    return json.dumps(v)


def main():
    ok = True
    print("=== T2: payload fields named like core fields")
    for shards in (1, 2):
        srv = harness.Server(shards)
        try:
            print("--- %d shard(s)" % shards)
            for et, schema, payload, named in CASES:
                d = "DEFINE %s FIELDS %s" % (et, json.dumps(schema))
                s = "STORE %s FOR c5 PAYLOAD %s" % (et, json.dumps(payload))
                rd = srv.send([d], wait=0.3)[0][1]
                print("  >> %s\n     %s" % (d, rd.strip().replace("\n", " | ")))
                if 400 <= status(rd) < 500:
                    print("     DEFINE refused with a 4xx -> ok")
                    continue
                rs = srv.send([s], wait=0.3)[0][1]
                print("  >> %s\n     %s" % (s, rs.strip().replace("\n", " | ")))
                if 400 <= status(rs) < 500:
                    print("     DEFINE accepted a schema whose events cannot be stored -> VIOLATED")
                    ok = False
                    continue
                for phase in ("in memory", "after FLUSH"):
                    if phase == "after FLUSH":
                        srv.send(["FLUSH"], wait=0.3)
                        time.sleep(1.5)
                    r = rows_of(srv.send(["QUERY %s" % et], wait=0.8)[0][1])
                    print("     [%s] QUERY %s -> %s" % (phase, et, r))
                    for f, v in named.items():
                        got = [x.get(f) for x in r] + [x.get("payload." + f) for x in r]
                        good = len(r) == 1 and v in got
                        print("         stored %s=%s, returned %s -> %s" % (f, lit(v), [g for g in got if g is not None], "ok" if good else "VIOLATED (payload value lost)"))
                        ok = ok and good
                        q = "QUERY %s WHERE %s = %s" % (et, f, lit(v))
                        w = rows_of(srv.send([q], wait=0.8)[0][1])
                        good = len(w) == 1
                        print("         %s -> %d row(s), expected 1 -> %s" % (q, len(w), "ok" if good else "VIOLATED"))
                        ok = ok and good
        finally:
            srv.stop()
    print("RESULT:", "correct" if ok else "VIOLATED (DEFINE accepts core field names; STORE accepts the values; QUERY never returns them)")
    return 0 if ok else 1


if __name__ == "__main__":
    sys.exit(main())
