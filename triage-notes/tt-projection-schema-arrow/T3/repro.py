#!/usr/bin/env python3
"""T3 - Arrow responses type "Timestamp" columns as Timestamp(Millisecond) but carry epoch SECONDS.

C20 (response encoding): the instant a client decodes from the Arrow reply (raw value interpreted in the unit of the
column's Arrow type) must be the instant of the JSON reply / of what was stored.
History (real servers; stores over TCP; queries: JSON server over TCP, Arrow server (output_format = "arrow") over HTTP
POST /command - the TCP front end always uses the text renderer):
    DEFINE ev FIELDS {"k":"string","created_at":"datetime"}
    STORE ev FOR c1 PAYLOAD {"k":"a","created_at":"2025-01-01T00:00:00Z"}     (= 1735689600 s)
    STORE ev FOR c2 PAYLOAD {"k":"b","created_at":"2025-01-03T00:00:00Z"}     (= 1735862400 s)
    QUERY ev            (whole-batch path: ColumnBatch::to_record_batch, engine/core/read/flow/batch.rs)
    QUERY ev LIMIT 5 OFFSET 1   (row-selection path: build_record_batch, shared/response/arrow.rs)
in memory and after FLUSH. The Arrow bytes are decoded with the arrow-ipc crate of the repo by the throw-away
binary t3_decode ($T3_DECODE, default /var/tmp/tt/tmp/t3_decode; source next to this script: copy it to
src/bin/t3_decode.rs of a scratch copy and `cargo build --offline --bin t3_decode`; no pyarrow on this machine).
exit 0 = correct, 1 = violated.   Usage: [SNEL_BIN=...] [T3_DECODE=...] python3 repro.py
"""
import datetime, os, subprocess, sys, tempfile, time
import urllib.request, urllib.error
sys.path.insert(0, os.path.join(os.path.dirname(os.path.abspath(__file__)), "..", "common"))
import harness
from tqlib import table

DECODE = os.environ.get("T3_DECODE", "/var/tmp/tt/tmp/t3_decode")
SETUP = [
    'DEFINE ev FIELDS {"k":"string","created_at":"datetime"}',
    'STORE ev FOR c1 PAYLOAD {"k":"a","created_at":"2025-01-01T00:00:00Z"}',
    'STORE ev FOR c2 PAYLOAD {"k":"b","created_at":"2025-01-03T00:00:00Z"}',
]
STORED = {1735689600, 1735862400}
PER_SECOND = {"Second": 1, "Millisecond": 10**3, "Microsecond": 10**6, "Nanosecond": 10**9}


def raw_query(port, q):
    """POST /command on the HTTP front end (the TCP front end always answers with the text renderer)."""
    req = urllib.request.Request("http://127.0.0.1:%d/command" % port, data=q.encode(), method="POST")
    try:
        with urllib.request.urlopen(req, timeout=10) as r:
            return r.read()
    except urllib.error.HTTPError as e:
        return e.read()


def decode(buf):
    with tempfile.NamedTemporaryFile(dir=os.environ.get("TF_TMP", "/var/tmp/tt/tmp"), suffix=".arrow") as f:
        f.write(buf)
        f.flush()
        out = subprocess.run([DECODE, f.name], capture_output=True, text=True)
    if out.returncode != 0:
        print("      decoder failed:", out.stderr.strip()[:300], "| first bytes:", buf[:80])
        return []
    cols = []
    for line in out.stdout.splitlines():
        name, typ, vals = (line.split("\t") + [""])[:3]
        cols.append((name, typ, [v for v in vals.split(",") if v != ""]))
    return cols


def iso(sec):
    try:
        return datetime.datetime.utcfromtimestamp(sec).strftime("%Y-%m-%dT%H:%M:%SZ")
    except Exception:
        return "out of range"


def main():
    ok = True
    print("=== T3: unit of Arrow Timestamp columns vs unit of the values")
    print("history:")
    for c in SETUP:
        print("   ", c)
    js = harness.Server(1, fmt="json")
    ar = harness.Server(1, fmt="arrow")
    try:
        js.send(SETUP, wait=0.2)
        ar.send(SETUP, wait=0.2)
        for phase in ("in memory", "after FLUSH"):
            if phase == "after FLUSH":
                js.send(["FLUSH"], wait=0.3)
                ar.send(["FLUSH"], wait=0.3)
                time.sleep(1.5)
            for q in ("QUERY ev", "QUERY ev LIMIT 5 OFFSET 1"):
                jcols, jrows = table(js.send([q], wait=0.8)[0][1])
                jvals = sorted(r[jcols.index("created_at")] for r in jrows)
                print("  [%s] %s" % (phase, q))
                print("      JSON reply : created_at %s (%s)" % (jvals, [iso(v) for v in jvals]))
                cols = decode(raw_query(ar.http_port, q))
                if not cols:
                    ok = False
                now = time.time()
                for name, typ, vals in cols:
                    if not typ.startswith("Timestamp"):
                        continue
                    unit = typ[len("Timestamp("):].split(",")[0]
                    secs = [int(v) / PER_SECOND[unit] for v in vals if v != "null"]
                    if name == "created_at":
                        good = bool(secs) and all(s in STORED for s in secs)
                        want = "one of the stored instants 2025-01-01 / 2025-01-03"
                    else:
                        good = bool(secs) and all(abs(s - now) < 600 for s in secs)
                        want = "the STORE time (now)"
                    print("      Arrow reply: %-10s type %s raw %s -> decodes to %s; expected %s -> %s"
                          % (name, typ, vals, [iso(s) for s in secs], want, "ok" if good else "VIOLATED"))
                    ok = ok and good
    finally:
        js.stop()
        ar.stop()
    print("RESULT:", "correct" if ok else "VIOLATED (Arrow type says milliseconds, values are seconds: clients decode dates in January 1970)")
    return 0 if ok else 1


if __name__ == "__main__":
    sys.exit(main())
