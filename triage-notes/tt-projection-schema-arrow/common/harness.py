#!/usr/bin/env python3
"""Shared harness for the F1..F8 sequence-query repro scripts.

Starts a throw-away snel_db server (binary from $SNEL_BIN, default
/var/tmp/tt/target/debug/snel_db) in a fresh temp dir on a free TCP port, sends a
command history over TCP, returns the rows of the final QUERY, and kills exactly
the pid it started.  Every history is run in 4 placements:
   shards in {1,2}  x  {in memory, after FLUSH}.
"""
import json, os, shutil, signal, socket, subprocess, sys, tempfile, time

BIN = os.environ.get("SNEL_BIN", "/var/tmp/tt/target/debug/snel_db")
VERBOSE = os.environ.get("VERBOSE", "0") == "1"

CFG = '''
[wal]
enabled = true
fsync = false
buffered = false
buffer_size = "1KB"
dir = "{d}/wal/"
flush_each_write = true
fsync_every_n = 1
conservative_mode = false
archive_dir = "{d}/wal/archived/"
compression_level = 3
compression_algorithm = "zstd"
[engine]
fill_factor = 2
data_dir = "{d}/cols"
index_dir = "{d}/index/"
shard_count = {shards}
event_per_zone = {epz}
compaction_interval = 3000
sys_io_threshold = 100000
sys_memory_threshold_mb = "1MB"
max_inflight_passives = 8
segments_per_merge = 2
compaction_max_shard_concurrency = 1
[schema]
def_dir="{d}/schema/"
[server]
socket_path = "{d}/sock"
log_level = "error"
output_format = "{fmt}"
tcp_addr = "127.0.0.1:{port}"
http_addr = "127.0.0.1:{port1}"
ws_addr = "127.0.0.1:{port2}"
auth_token = "t"
[playground]
enabled = false
allow_unauthenticated = true
[auth]
bypass_auth = true
rate_limit_enabled = false
[logging]
log_dir = "{d}/logs"
stdout_level = "error"
file_level = "error"
[query]
zone_index_cache_max_entries = 256
column_block_cache_max_bytes = "64MB"
zone_surf_cache_max_bytes = "10MB"
[time]
timezone = "UTC"
week_start = "Mon"
use_calendar_bucketing = true
'''


def _free_ports():
    socks = []
    ports = []
    for _ in range(3):
        s = socket.socket()
        s.bind(("127.0.0.1", 0))
        socks.append(s)
        ports.append(s.getsockname()[1])
    for s in socks:
        s.close()
    return ports


class Server:
    def __init__(self, shards, epz=4, fmt="json"):
        self.d = tempfile.mkdtemp(prefix="tfsrv_", dir=os.environ.get("TF_TMP", "/var/tmp/tt/tmp"))
        self.port, p1, p2 = _free_ports()
        self.http_port = p1
        with open(self.d + "/cfg.toml", "w") as f:
            f.write(CFG.format(d=self.d, shards=shards, epz=epz, port=self.port, port1=p1, port2=p2, fmt=fmt))
        env = dict(os.environ, SNELDB_CONFIG=self.d + "/cfg.toml", SNELDB_PRESERVE_DATA="1", RUST_LOG="error")
        self.log = open(self.d + "/server.log", "w")
        self.proc = subprocess.Popen([BIN], cwd=self.d, env=env, stdout=self.log, stderr=subprocess.STDOUT)
        for _ in range(100):
            try:
                socket.create_connection(("127.0.0.1", self.port), timeout=0.2).close()
                break
            except OSError:
                time.sleep(0.1)
        else:
            self.stop()
            raise RuntimeError("server did not start: " + BIN)

    def send(self, cmds, wait=0.5):
        """Sends the commands one by one; a reply is complete when nothing arrived for `wait` s
        (the first byte of a reply is awaited for up to 10 s)."""
        out = []
        s = socket.create_connection(("127.0.0.1", self.port), timeout=5)
        for c in cmds:
            s.sendall((c + "\n").encode())
            buf = b""
            s.settimeout(10)
            while True:
                try:
                    d = s.recv(65536)
                    if not d:
                        break
                    buf += d
                    s.settimeout(wait)
                    if buf.rstrip().endswith(b'}') and b'"type":"end"' in buf.splitlines()[-1]:
                        break
                except socket.timeout:
                    break
            out.append((c, buf.decode(errors="replace")))
        s.close()
        return out

    def stop(self):
        try:
            self.proc.send_signal(signal.SIGKILL)  # only the pid we started
            self.proc.wait(timeout=5)
        except Exception:
            pass
        self.log.close()
        shutil.rmtree(self.d, ignore_errors=True)


def parse_rows(resp):
    """Rows of a streamed / json QUERY response as list of dicts (column -> value)."""
    rows = []
    cols = None
    for line in resp.splitlines():
        line = line.strip()
        if not line or not line.startswith("{"):
            continue
        try:
            o = json.loads(line)
        except Exception:
            continue
        t = o.get("type")
        if t == "schema":
            cols = [c["name"] for c in o.get("columns", [])]
        elif t == "batch":
            for r in o.get("rows", []):
                rows.append(dict(zip(cols, r)) if cols and isinstance(r, list) else r)
        elif t == "row":
            v = o.get("values")
            if isinstance(v, dict):
                rows.append(v)
            elif cols and isinstance(v, list):
                rows.append(dict(zip(cols, v)))
        elif "results" in o:  # non-streaming json table
            for tbl in o["results"] if isinstance(o["results"], list) else [o["results"]]:
                if isinstance(tbl, dict) and "rows" in tbl:
                    names = [c["name"] if isinstance(c, dict) else c for c in tbl.get("columns", [])]
                    for r in tbl["rows"]:
                        rows.append(dict(zip(names, r)))
                elif isinstance(tbl, dict):
                    rows.append(tbl)
    return rows


def flat(row):
    """Merge payload into the row so that fields can be addressed uniformly."""
    r = dict(row)
    p = r.pop("payload", None)
    if isinstance(p, dict):
        r.update(p)
    return r


def pairs(rows, time_field="at"):
    """The matcher emits the events of each pair consecutively: fold into pairs of
    (event_type, time) tuples."""
    ev = [(flat(r).get("event_type"), flat(r).get(time_field)) for r in rows]
    return [tuple(ev[i:i + 2]) for i in range(0, len(ev), 2)]


PLACEMENTS = [(1, False), (1, True), (2, False), (2, True)]


def run_history(setup, query, shards, flush, post=()):
    srv = Server(shards)
    try:
        cmds = list(setup) + (["FLUSH"] if flush else [])
        hist = srv.send(cmds, wait=0.15)
        if flush:
            time.sleep(1.0)
        if post:
            hist += srv.send(list(post), wait=0.15)
        q = srv.send([query], wait=1.0)
        return hist + q, q[0][1]
    finally:
        srv.stop()


def check(name, setup, query, expected_pairs, time_field="at", row_pred=None, describe=None, post=()):
    """Runs the history in all placements; returns True if all are as expected."""
    ok = True
    print("=== %s" % name)
    print("history:")
    for c in setup:
        print("   ", c)
    print("    [FLUSH in the 'flushed' placements]")
    for c in post:
        print("   ", c)
    print("   ", query)
    for shards, flush in PLACEMENTS:
        hist, resp = run_history(setup, query, shards, flush, post)
        bad = [(c, r) for c, r in hist[:-1] if '"status":200' not in r.replace(" ", "") and "200" not in r[:40]]
        rows = parse_rows(resp)
        if row_pred is not None:
            good, observed = row_pred(rows, resp)
        else:
            observed = sorted(pairs(rows, time_field), key=repr)
            good = observed == sorted(expected_pairs, key=repr)
        tag = "%d shard(s), %s" % (shards, "after FLUSH" if flush else "in memory")
        print("  [%s] observed: %s" % (tag, observed))
        print("  [%s] expected: %s -> %s" % (tag, describe or sorted(expected_pairs, key=repr), "ok" if good else "VIOLATED"))
        if bad:
            print("  [%s] non-200 setup replies: %s" % (tag, bad))
        if VERBOSE or (not good and os.environ.get("SHOWRAW")):
            print("  raw:", resp)
        ok = ok and good
    return ok
