#!/usr/bin/env python3
"""Helpers shared by the N1..N4 repro scripts (on top of harness.py).

run(setup, queries, shards, epz, flush) starts a throw-away server (binary $SNEL_BIN,
default /var/tmp/tt/target/debug/snel_db; temp dir $TF_TMP, default /var/tmp/tt/tmp), sends the
history, optionally FLUSHes, sends the queries and returns {query: (columns, rows)}.
Only the pid started here is killed (harness.Server.stop).
"""
import json, os, sys, time

sys.path.insert(0, os.path.dirname(os.path.abspath(__file__)))
os.makedirs(os.environ.get("TF_TMP", "/var/tmp/tt/tmp"), exist_ok=True)
import harness  # noqa: E402


def table(resp):
    """(columns, rows as lists) of a streamed QUERY reply."""
    cols, rows = [], []
    for line in resp.splitlines():
        line = line.strip()
        if not line.startswith("{"):
            continue
        try:
            o = json.loads(line)
        except Exception:
            continue
        if o.get("type") == "schema":
            cols = [c["name"] for c in o.get("columns", [])]
        elif o.get("type") == "batch":
            rows.extend(o.get("rows", []))
    return cols, rows


def dicts(tbl):
    cols, rows = tbl
    return [dict(zip(cols, r)) for r in rows]


def run(setup, queries, shards=1, epz=4, flush=False, settle=1.5):
    srv = harness.Server(shards, epz)
    try:
        hist = srv.send(list(setup), wait=0.1)
        bad = [(c, r.strip()) for c, r in hist if not r.startswith("200")]
        if bad:
            print("  non-200 setup replies:", bad[:3])
        if flush:
            srv.send(["FLUSH"], wait=0.3)
            time.sleep(settle)
        out = {}
        for c, r in srv.send(list(queries), wait=1.0):
            out[c] = table(r)
        return out
    finally:
        srv.stop()


def print_history(setup, queries, max_lines=12):
    print("history:")
    if len(setup) > max_lines:
        for c in setup[: max_lines - 3]:
            print("   ", c)
        print("    ... (%d more STORE commands of the same shape)" % (len(setup) - max_lines + 2))
        print("   ", setup[-1])
    else:
        for c in setup:
            print("   ", c)
    print("    [FLUSH in the 'flushed' placements]")
    for q in queries:
        print("   ", q)
