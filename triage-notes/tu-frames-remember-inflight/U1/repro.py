#!/usr/bin/env python3
"""U1: an empty-string field must come back as "" (not null) from a remembered query.
Real server over TCP.  exit 0 = SHOW m returns the same values as QUERY ev, 1 = violated.
usage: repro.py [path-to-snel_db]   (default /var/tmp/tu/target/debug/snel_db)"""
import os, sys
sys.path.insert(0, os.path.join(os.path.dirname(os.path.abspath(__file__)), "..", "lib"))
from sneldb_harness import Server, rows_of

binary = sys.argv[1] if len(sys.argv) > 1 else "/var/tmp/tu/target/debug/snel_db"
srv = Server(binary, "/var/tmp/tu/run/U1", tcp_port=17711, http_port=17712, ws_port=17713)
hist = []
def run(c):
    r = srv.remember(c) if c.startswith('REMEMBER') else srv.cmd(c)
    hist.append((c, r))
    return r
srv.start()
try:
    run('DEFINE ev FIELDS {"k":"int","tag":"string"}')
    run('STORE ev FOR c PAYLOAD {"k":1,"tag":""}')
    run('STORE ev FOR c PAYLOAD {"k":2,"tag":"x"}')
    remember = run('REMEMBER QUERY ev AS m')
    q = rows_of(run('QUERY ev'))
    s1 = rows_of(run('SHOW m'))
    # delta path: a row that arrives after REMEMBER is written as a second frame by SHOW
    run('STORE ev FOR c PAYLOAD {"k":3,"tag":""}')
    q2 = rows_of(run('QUERY ev'))
    s2 = rows_of(run('SHOW m'))
    s3 = rows_of(run('SHOW m'))
    # guard: a real null must stay null (and "" next to it must stay "")
    run('DEFINE opt FIELDS {"k":"int","note":"string | null"}')
    run('STORE opt FOR c PAYLOAD {"k":1,"note":null}')
    run('STORE opt FOR c PAYLOAD {"k":2,"note":""}')
    run('REMEMBER QUERY opt AS mo')
    qo = rows_of(run('QUERY opt'))
    so = rows_of(run('SHOW mo'))
finally:
    srv.stop()
for c, r in hist:
    print(">>", c)
    for l in r: print("  ", l)
key = lambda rows: sorted((r["k"], r["tag"]) for r in rows)
print("---")
print("QUERY ev (k, tag)         :", key(q))
print("SHOW m   (k, tag)         :", key(s1))
print("QUERY ev after 3rd store  :", key(q2))
print("SHOW m   (delta, live)    :", key(s2))
print("SHOW m   (all from frames):", key(s3))
keyo = lambda rows: sorted((r["k"], r["note"]) for r in rows)
print("QUERY opt (k, note)       :", keyo(qo))
print("SHOW mo   (k, note)       :", keyo(so), " expected [(1, None), (2, '')]")
exp1 = [(1, ""), (2, "x")]
exp2 = [(1, ""), (2, "x"), (3, "")]
ok = key(q) == exp1 and key(s1) == exp1 and key(q2) == exp2 and key(s2) == exp2 and key(s3) == exp2 and keyo(qo) == [(1, None), (2, "")] and keyo(so) == keyo(qo)
print("expected                  :", exp1, "then", exp2)
print("RESULT:", "correct" if ok else "VIOLATED (SHOW returns null where QUERY returns \"\")")
sys.exit(0 if ok else 1)
