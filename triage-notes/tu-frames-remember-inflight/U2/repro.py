#!/usr/bin/env python3
"""U2: REMEMBER of a sequence query (FOLLOWED BY ... LINKED BY ...) with LIMIT.
Real server over TCP, 1 shard.
Property C14: after REMEMBER QUERY q AS m every SHOW m returns exactly the events QUERY q returns.
docs/src/commands/remember.md (Constraints): "Only selection queries without aggregates, grouping,
or event sequences can be remembered" -> the correct outcome is EITHER a refusal of the REMEMBER
(nothing stored, SHOW says 'not found') OR, if it is accepted, SHOW == QUERY (whole sequences, LIMIT 2 sequences).
exit 0 = one of those, 1 = violated.
usage: repro.py [path-to-snel_db]"""
import os, sys, time
sys.path.insert(0, os.path.join(os.path.dirname(os.path.abspath(__file__)), "..", "lib"))
from sneldb_harness import Server, rows_of

binary = sys.argv[1] if len(sys.argv) > 1 else "/var/tmp/tu/target/debug/snel_db"
srv = Server(binary, "/var/tmp/tu/run/U2", tcp_port=17721, http_port=17722, ws_port=17723)
hist = []
def run(c):
    r = srv.remember(c) if c.startswith("REMEMBER") else srv.cmd(c)
    hist.append((c, r))
    return r
def rows(resp):
    return rows_of(resp) if resp and resp[0].startswith("{") else None
def key(rs):
    return None if rs is None else sorted((r["event_type"], r["user_id"], r["at"]) for r in rs)
Q = 'QUERY page_view FOLLOWED BY purchase LINKED BY user_id USING TIME at LIMIT 2'
srv.start()
try:
    run('DEFINE page_view FIELDS {"user_id":"string","at":"int"}')
    run('DEFINE purchase FIELDS {"user_id":"string","at":"int"}')
    for i, u in enumerate(["u1", "u2", "u3"]):
        run('STORE page_view FOR %s PAYLOAD {"user_id":"%s","at":%d}' % (u, u, 100 + 10 * i))
        run('STORE purchase FOR %s PAYLOAD {"user_id":"%s","at":%d}' % (u, u, 105 + 10 * i))
    q0 = rows(run(Q))
    rem = run('REMEMBER ' + Q + ' AS seq2')
    s1 = rows(run('SHOW seq2'))
    q1 = rows(run(Q))
    time.sleep(1.1)
    # a fourth complete pair arrives after REMEMBER
    run('STORE page_view FOR u4 PAYLOAD {"user_id":"u4","at":140}')
    run('STORE purchase FOR u4 PAYLOAD {"user_id":"u4","at":145}')
    s2 = rows(run('SHOW seq2'))
    s3 = rows(run('SHOW seq2'))
    q2 = rows(run(Q))
    # control: a plain selection is still remembered
    ctl = run('REMEMBER QUERY page_view LIMIT 2 AS pv2')
    sc = rows(run('SHOW pv2'))
finally:
    srv.stop()
for c, r in hist:
    print(">>", c)
    for l in r: print("  ", l)
print("---")
refused = not rem[0].startswith("200")
print("REMEMBER sequence query   :", "REFUSED: " + rem[0] if refused else "accepted, " + rem[2])
print("QUERY  (before REMEMBER)  :", key(q0))
print("SHOW seq2 #1              :", key(s1))
print("QUERY  (after 4th pair)   :", key(q2))
print("SHOW seq2 #2              :", key(s2))
print("SHOW seq2 #3              :", key(s3))
print("control REMEMBER selection:", ctl[0], ctl[2] if len(ctl) > 2 else "", "SHOW rows:", None if sc is None else len(sc))
ctl_ok = ctl[0].startswith("200") and sc is not None and len(sc) == 2
if refused:
    ok = s1 is None and s2 is None and ctl_ok
    print("expected: refusal (docs: no event sequences) and no materialization 'seq2' -> SHOW not found")
else:
    ok = key(s1) == key(q1) and key(s2) == key(q2) and key(s3) == key(q2) and ctl_ok
    print("expected: SHOW == QUERY (2 sequences = 4 events) every time")
print("RESULT:", "correct" if ok else "VIOLATED (accepted, but SHOW seq2 != QUERY: LIMIT cut rows not sequences / delta appends more pairs)")
sys.exit(0 if ok else 1)
