#!/usr/bin/env python3
"""U3: REPLAY FOR acct-7 issued repeatedly while a burst of 96 pipelined STOREs is being flushed
(event_per_zone=2, fill_factor=2 -> flush every 4 events, max_inflight_passives=2, 1 shard).
Every REPLAY must return the context's 72 events once each, in append order.
exit 0 = every round of every run correct, 1 = violated.
usage: repro.py [path-to-snel_db] [runs=5] [max_inflight_passives=2] [poll_seconds=0.1]"""
import os, sys, time, json
sys.path.insert(0, os.path.join(os.path.dirname(os.path.abspath(__file__)), "..", "lib"))
from sneldb_harness import Server

binary = sys.argv[1] if len(sys.argv) > 1 else "/var/tmp/tu/target/debug/snel_db"
RUNS = int(sys.argv[2]) if len(sys.argv) > 2 else 5
MIP = int(sys.argv[3]) if len(sys.argv) > 3 else 2
POLL = float(sys.argv[4]) if len(sys.argv) > 4 else 0.1
ROUNDS = int(40 * 0.1 / max(POLL, 0.005))
BURST = 96
bad_rounds = 0
kinds = {"payload_null": 0, "rows_missing": 0, "duplicated": 0, "out_of_order": 0, "synthetic_ids": 0}
for run in range(RUNS):
    s = Server(binary, "/var/tmp/tu/run/U3", event_per_zone=2, fill_factor=2, max_inflight_passives=MIP,
               segments_per_merge=8, compaction_interval=3600, tcp_port=17731, http_port=17732, ws_port=17733)
    s.start()
    try:
        s.ok('DEFINE transfer FIELDS { "n": "int" }')
        s.ok('DEFINE fee FIELDS { "n": "int" }')
        commands, expected = [], {}
        for n in range(1, BURST + 1):
            ctx = "acct-7" if n % 4 else "acct-%d" % (n % 3)
            et = "fee" if n % 5 == 0 else "transfer"
            commands.append('STORE %s FOR %s PAYLOAD {"n": %d}' % (et, ctx, n))
            expected.setdefault(ctx, []).append((et, n))
        if run == 0:
            print(">> DEFINE transfer FIELDS { \"n\": \"int\" }\n>> DEFINE fee FIELDS { \"n\": \"int\" }")
            print(">> pipelined on one connection: %s ... %s  (96 STOREs; n%%4==0 -> acct-0/1/2, else acct-7; n%%5==0 -> fee)" % (commands[0], commands[-1]))
            print(">> then up to 40 x: REPLAY FOR acct-7   (every 0.1 s, until 24 segments exist)")
        replies = s.pipeline(commands)
        assert all(r[0].startswith("200") for r in replies), replies
        want = expected["acct-7"]
        for rnd in range(ROUNDS):
            segs = sorted(d for d in os.listdir(s.base + "/data/shard-0") if d.isdigit())
            rows = s.replay("REPLAY FOR acct-7")
            got = [(r["event_type"], r["n"]) for r in rows]
            if got != want:
                bad_rounds += 1
                ids = [r["event_id"] for r in rows]
                ns = [g[1] for g in got if g[1] is not None]
                nulls = [r for r in rows if r["n"] is None]
                missing = sorted(set(w[1] for w in want) - set(ns))
                dups = sorted(set(x for x in ns if ns.count(x) > 1))
                dup_ids = len(ids) - len(set(ids))
                order_ok = ids == sorted(ids)
                n_order_ok = ns == sorted(ns)
                synth = [i for i in ids if i < (1 << 40)]
                if nulls: kinds["payload_null"] += 1
                if len(got) < len(want): kinds["rows_missing"] += 1
                if dups or dup_ids: kinds["duplicated"] += 1
                if not order_ok or not n_order_ok: kinds["out_of_order"] += 1
                if synth: kinds["synthetic_ids"] += 1
                print("run", run, "round", rnd, "segments", len(segs), "MISMATCH: got", len(got), "rows, want", len(want),
                      "| rows with n=null:", len(nulls), "| n never seen:", missing, "| duplicated n:", dups,
                      "| duplicate event_ids:", dup_ids, "| event_ids ascending:", order_ok, "| n ascending (append order):", n_order_ok,
                      "| rows with synthetic event_id (zone<<32|row):", synth)
                for i, (g, w) in enumerate(zip(got, want)):
                    if g != w:
                        print("   first difference at position", i, "observed n", [x[1] for x in got[i:i + 8]], "expected n", [x[1] for x in want[i:i + 8]])
                        print("   rows there:", json.dumps(rows[max(0, i - 1):i + 3]))
                        break
            else:
                print("run", run, "round", rnd, "segments", len(segs), "ok")
            if len(segs) >= BURST // 4:
                break
            time.sleep(POLL)
    finally:
        s.stop()
print("---")
print("expected: every REPLAY returns n =", [w[1] for w in expected["acct-7"]][:6], "... (72 events, append order)")
print("violating rounds:", bad_rounds, kinds)
print("RESULT:", "correct" if bad_rounds == 0 else "VIOLATED")
sys.exit(0 if bad_rounds == 0 else 1)
