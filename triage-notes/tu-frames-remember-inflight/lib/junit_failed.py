import sys, xml.etree.ElementTree as ET
def failed(p):
    out=set()
    for tc in ET.parse(p).getroot().iter("testcase"):
        if tc.find("failure") is not None or tc.find("error") is not None:
            out.add(tc.get("classname","")+"::"+tc.get("name",""))
    return out
a, b = failed(sys.argv[1]), failed(sys.argv[2])
print(len(a), len(b), "only-in-first:", sorted(a-b), "only-in-second:", sorted(b-a))
