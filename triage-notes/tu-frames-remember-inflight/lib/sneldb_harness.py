#!/usr/bin/env python3
"""Minimal test harness: start the sneldb server binary with a private config and
data directory, talk to it over the plain TCP front end, parse streamed results."""
import json
import os
import shutil
import socket
import subprocess
import time

CONFIG_TEMPLATE = """
[wal]
enabled = true
fsync = false
buffered = true
buffer_size = 65536
dir = "{base}/wal"
flush_each_write = true
conservative_mode = false
archive_dir = "{base}/wal/archived"
compression_level = 3
compression_algorithm = "zstd"

[engine]
data_dir = "{base}/data"
index_dir = "{base}/index"
shard_count = {shard_count}
fill_factor = {fill_factor}
event_per_zone = {event_per_zone}
compaction_threshold = 10
compaction_interval = {compaction_interval}
sys_io_threshold = 100
max_inflight_passives = {max_inflight_passives}
level_span = 10000
segment_id_pad = 5
segments_per_merge = {segments_per_merge}
compaction_max_shard_concurrency = 1

[server]
socket_path = "{base}/sneldb.sock"
log_level = "error"
output_format = "json"
tcp_addr = "127.0.0.1:{tcp_port}"
http_addr = "127.0.0.1:{http_port}"
ws_addr = "127.0.0.1:{ws_port}"
auth_token = "test"
backpressure_threshold = 90

[logging]
log_dir = "{base}/logs"
stdout_level = "error"
file_level = "error"

[schema]
def_dir = "{base}/schema"

[playground]
enabled = true
allow_unauthenticated = true

[time]
timezone = "UTC"
week_start = "Mon"
use_calendar_bucketing = true

[query]
zone_index_cache_max_entries = 1024
column_block_cache_max_bytes = 268435456
zone_surf_cache_max_bytes = 104857600

[auth]
bypass_auth = true
"""


class Server:
    def __init__(self, binary, base, **opts):
        self.binary = binary
        self.base = base
        self.opts = dict(
            shard_count=1,
            fill_factor=4,
            event_per_zone=4,
            compaction_interval=3600,
            segments_per_merge=2,
            max_inflight_passives=8,
            tcp_port=17621,
            http_port=17622,
            ws_port=17623,
        )
        self.opts.update(opts)
        self.proc = None
        self.sock = None
        self.pending = b""

    def start(self, fresh=True):
        if fresh and os.path.exists(self.base):
            shutil.rmtree(self.base)
        os.makedirs(self.base, exist_ok=True)
        cfg = os.path.join(self.base, "config.toml")
        with open(cfg, "w") as f:
            f.write(CONFIG_TEMPLATE.format(base=self.base, **self.opts))
        env = dict(os.environ)
        env.update(SNELDB_CONFIG=cfg, SNELDB_PRESERVE_DATA="1", RUST_LOG="error")
        log = open(os.path.join(self.base, "server.out"), "ab")
        self.proc = subprocess.Popen(
            [self.binary], env=env, stdout=log, stderr=log, cwd=self.base
        )
        deadline = time.time() + 60
        while time.time() < deadline:
            try:
                self.sock = socket.create_connection(
                    ("127.0.0.1", self.opts["tcp_port"]), timeout=1
                )
                self.pending = b""
                return
            except OSError:
                if self.proc.poll() is not None:
                    raise RuntimeError(
                        "server exited early, see %s/server.out" % self.base
                    )
                time.sleep(0.1)
        raise RuntimeError("server did not come up")

    def stop(self):
        """Stops only the process this object started."""
        if self.sock:
            try:
                self.sock.close()
            except OSError:
                pass
            self.sock = None
        if self.proc:
            self.proc.terminate()
            try:
                self.proc.wait(timeout=10)
            except subprocess.TimeoutExpired:
                self.proc.kill()
                self.proc.wait()
            self.proc = None

    # -- protocol -----------------------------------------------------------
    def _read_line(self, timeout):
        deadline = time.time() + timeout
        while b"\n" not in self.pending:
            remaining = deadline - time.time()
            if remaining <= 0:
                raise TimeoutError("no complete line from server")
            self.sock.settimeout(remaining)
            try:
                chunk = self.sock.recv(1 << 16)
            except socket.timeout:
                raise TimeoutError("no complete line from server")
            if not chunk:
                raise ConnectionError("server closed the connection")
            self.pending += chunk
        line, self.pending = self.pending.split(b"\n", 1)
        return line.decode(errors="replace")

    def read_response(self, timeout=30.0):
        """One response: '200 OK' + message line, an error line, or a JSON stream up to 'end'."""
        lines = [self._read_line(timeout)]
        first = lines[0]
        if first.startswith("{"):
            while '"type":"end"' not in lines[-1]:
                lines.append(self._read_line(timeout))
        elif first.startswith("200"):
            lines.append(self._read_line(timeout))
        return lines

    def cmd(self, line, timeout=30.0):
        self.sock.sendall(line.encode() + b"\n")
        return self.read_response(timeout)

    def pipeline(self, commands, timeout=60.0):
        """Send all commands back to back on this connection, then collect the responses."""
        self.sock.sendall(("\n".join(commands) + "\n").encode())
        return [self.read_response(timeout) for _ in commands]

    def ok(self, line):
        resp = self.cmd(line)
        if not resp[0].startswith("200"):
            raise RuntimeError("command failed: %s -> %s" % (line, resp))
        return resp

    def remember(self, line, timeout=30.0):
        """REMEMBER answers '200 OK' followed by a summary that ends with 'high-water age (s): N'
        (or a single error line)."""
        self.sock.sendall(line.encode() + b"\n")
        lines = [self._read_line(timeout)]
        if lines[0].startswith("200"):
            while not lines[-1].startswith("bytes appended"):
                lines.append(self._read_line(timeout))
            # the two high-water lines are only present when something was stored
            try:
                while not lines[-1].startswith("high-water age"):
                    lines.append(self._read_line(0.5))
            except TimeoutError:
                pass
        return lines

    def replay(self, line):
        return rows_of(self.cmd(line))


def rows_of(lines):
    cols, rows = None, []
    for line in lines:
        if not line.startswith("{"):
            raise RuntimeError("unexpected reply: %r" % (lines,))
        obj = json.loads(line)
        if obj.get("type") == "schema":
            cols = [c["name"] for c in obj["columns"]]
        elif obj.get("type") == "batch":
            rows.extend(dict(zip(cols, r)) for r in obj["rows"])
        elif obj.get("type") == "row":
            rows.append(dict(zip(cols, obj["values"])))
    return rows
