#!/usr/bin/env python3
"""V1: braces inside a JSON string value are counted by the raw brace-depth guard of STORE.
   part 1 unit level (parse_command), part 2 real server over TCP. exit 0 = correct, 1 = violated."""
import json, os, sys
sys.path.insert(0, os.path.join(os.path.dirname(os.path.abspath(__file__)), "..", "common"))
from tvlib import parse, Server, report

B70 = "{" * 70
nest = lambda n: '{"a":' * n + "1" + "}" * n
rows = []

# ---- unit level --------------------------------------------------------------------------
unit = [
    ('STORE ev FOR c PAYLOAD {"note":"%s"}' % B70, "OK Store, payload note = 70 x '{' (JSON nesting 1)",
        lambda r: r.startswith("OK Store") and B70 in r),
    ('STORE ev FOR c PAYLOAD {"note":"%s"}' % ("{" * 64), "OK Store (64 braces in a string)",
        lambda r: r.startswith("OK Store")),
    ('STORE ev FOR c PAYLOAD {"note":"a\\"%s"}' % B70, "OK Store (escaped quote, then braces, still inside the string)",
        lambda r: r.startswith("OK Store")),
    ('STORE ev FOR c PAYLOAD {"note":"a\\\\","n2":"%s"}' % B70, "OK Store (string ending in an escaped backslash)",
        lambda r: r.startswith("OK Store")),
    ('STORE ev FOR "%s" PAYLOAD {"a":1}' % B70, "OK Store (braces in the quoted context id)",
        lambda r: r.startswith("OK Store") and B70 in r),
    ('STORE ev FOR "a\\" PAYLOAD {"note":"%s"}' % B70, "OK Store (context id literals have no escapes: id is a\\ )",
        lambda r: r.startswith("OK Store") and B70 in r),
    # controls: behave the same before and after
    ('STORE ev FOR c PAYLOAD {"note":"%s"}' % ("{" * 63), "OK Store (control: 63 braces pass today)",
        lambda r: r.startswith("OK Store")),
    ("STORE ev FOR c PAYLOAD " + nest(64), "OK Store (control: 64 real levels allowed)", lambda r: r.startswith("OK Store")),
    ("STORE ev FOR c PAYLOAD " + nest(65), "ERR nesting deeper than 64 (control)", lambda r: r.startswith("ERR") and "nesting deeper" in r),
    ("STORE ev FOR c PAYLOAD " + '{"}":' * 65 + "1" + "}" * 65, "ERR (control: 65 real levels, keys are '}')", lambda r: r.startswith("ERR")),
    ("STORE ev FOR c PAYLOAD " + "{" * 3000, "ERR (control: unbalanced)", lambda r: r.startswith("ERR")),
    ("STORE ev FOR c PAYLOAD " + '{"a":' + "[" * 65 + "]" * 65 + "}", "ERR nesting deeper than 64 (control: arrays)", lambda r: r.startswith("ERR") and "nesting deeper" in r),
]
for (c, exp, ok), r in zip(unit, parse([u[0] for u in unit])):
    rows.append(("[unit] " + c, r, exp, ok(r)))

# ---- TCP -----------------------------------------------------------------------------------
with Server("v1") as s:
    cmds = ['DEFINE ev FIELDS { "note": "string" }',
            'STORE ev FOR c1 PAYLOAD {"note":"%s"}' % B70,
            'STORE ev FOR c2 PAYLOAD {"note":"plain"}',
            'QUERY ev']
    out = s.send(cmds)
    rows.append(("[tcp] " + cmds[0], out[0], "200 OK", '"status":200' in out[0] or "200 OK" in out[0]))
    rows.append(("[tcp] " + cmds[1], out[1], "200 OK (Event accepted)", "nesting deeper" not in out[1] and ('"status":200' in out[1] or "200 OK" in out[1])))
    rows.append(("[tcp] " + cmds[2], out[2], "200 OK (control)", '"status":200' in out[2] or "200 OK" in out[2]))
    rows.append(("[tcp] " + cmds[3], out[3], "2 rows, one with note = 70 x '{'", B70 in out[3] and "plain" in out[3]))
report(rows)
