#!/usr/bin/env python3
"""V2: a backslash in a quoted context id - do STORE, QUERY FOR and REPLAY FOR agree on the id?
   Oracle: the three commands must read the same literal as the same id (or all reject it), the id
   that is stored must be the one QUERY / REPLAY find with the same spelling and only with that spelling.
   unit level + real server over TCP. exit 0 = they agree, 1 = violated.
   --with-side adds the (unrepaired, rejection-only) side finding of ROOTCAUSE.md."""
import json, os, re, sys
sys.path.insert(0, os.path.join(os.path.dirname(os.path.abspath(__file__)), "..", "common"))
from tvlib import parse, Server, report

rows = []
BS = "\\"
lits = {            # literal text between the quotes -> id the grammars are expected to read (verbatim), None = rejected
    "a" + BS + BS + "b": "a" + BS + BS + "b",
    "a" + BS + "b": "a" + BS + "b",
    "a" + BS + "n": "a" + BS + "n",
    "a" + BS: "a" + BS,
    "a" + BS + '"b': None,
}
def ctx_of(r):
    m = re.search(r'context_id: (?:Some\()?("(?:[^"\\]|\\.)*")', r)
    return json.loads(m.group(1).replace("\\'", "'")) if m else None   # Debug escaping of \ and " equals JSON's

# ---- unit level: the id each grammar reads ---------------------------------------------------------
cmds, meta = [], []
for lit, want in lits.items():
    for tpl in ('STORE ev FOR "%s" PAYLOAD {"a":1}', 'QUERY ev FOR "%s"', 'REPLAY ev FOR "%s"', 'REPLAY FOR "%s"',
                'REMEMBER QUERY ev FOR "%s" AS m1', 'FIND ev FOR "%s"'):
        cmds.append(tpl % lit); meta.append(want)
res = parse(cmds)
for c, want, r in zip(cmds, meta, res):
    if want is None:
        rows.append(("[unit] " + c, r, "ERR in every command (a quote ends the literal, there are no escapes)", r.startswith("ERR")))
    else:
        rows.append(("[unit] " + c, r, "context id %r (verbatim)" % want, r.startswith("OK") and ctx_of(r) == want))

# ---- TCP: what is stored, and who finds it ------------------------------------------------------------
with Server("v2") as s:
    ok_lits = [l for l, w in lits.items() if w is not None]
    out = s.send(['DEFINE ev FIELDS { "a": "int" }'] + ['STORE ev FOR "%s" PAYLOAD {"a":%d}' % (l, i) for i, l in enumerate(ok_lits, 1)])
    for c, r in zip(["DEFINE"] + ok_lits, out):
        rows.append(("[tcp] STORE/DEFINE " + c, r, "200 OK", "200 OK" in r))
    def ids(resp):
        got = []
        for line in resp.splitlines():
            try: j = json.loads(line)
            except ValueError: continue
            if j.get("type") == "batch": got += [(row[0], row[-1]) for row in j["rows"]]
        return sorted(got)
    for phase in ("memtable", "after FLUSH"):
        if phase == "after FLUSH":
            s.send(["FLUSH"], wait=1.5)
        for i, l in enumerate(ok_lits, 1):
            for tpl in ('QUERY ev FOR "%s"', 'REPLAY ev FOR "%s"', 'QUERY ev WHERE context_id = "%s"'):
                c = tpl % l
                r = s.send([c])[0]
                rows.append(("[tcp %s] %s" % (phase, c), str(ids(r)), "exactly the one event stored under this spelling: [(%r, %d)]" % (lits[l], i), ids(r) == [(lits[l], i)]))
    bad = 'a' + BS + '"b'
    for tpl in ('STORE ev FOR "%s" PAYLOAD {"a":9}', 'QUERY ev FOR "%s"', 'REPLAY ev FOR "%s"'):
        r = s.send([tpl % bad])[0]
        rows.append(("[tcp] " + tpl % bad, r, "rejected by all three alike", r.startswith("ERROR") or '"status":400' in r))
    r = s.send(["QUERY ev"])[0]
    rows.append(("[tcp] QUERY ev", str(ids(r)), "%d events, nothing stored by the rejected STORE" % len(ok_lits), len(ids(r)) == len(ok_lits)))

if "--with-side" in sys.argv:
    side = ['STORE ev FOR "a%s" PAYLOAD {"s":"x@y"}' % BS, 'QUERY ev FOR "a%s" WHERE s = "x@y"' % BS]
    for c, r in zip(side, parse(side)):
        rows.append(("[unit side] " + c, r, "OK (the grammar accepts it; `@` is inside a string)", r.startswith("OK")))
report(rows)
