#!/usr/bin/env python3
"""V3: the HTTP status of an error must not depend on the length of its message.
   real server, POST /command (and one JSON command on POST /json-command). exit 0 = correct, 1 = violated."""
import json, os, sys
sys.path.insert(0, os.path.join(os.path.dirname(os.path.abspath(__file__)), "..", "common"))
from tvlib import Server, report

rows = []
def body_status(b):
    try: return json.loads(b.splitlines()[0]).get("status")
    except Exception: return None

with Server("v3") as s:
    st, b = s.post('DEFINE ev FIELDS { "a": "int", "status": "int | null" }')
    rows.append(("POST /command DEFINE ev FIELDS { a:int, status:int|null }", "HTTP %d %s" % (st, b.strip()), "HTTP 200", st == 200))
    for n in (5, 300, 395, 396, 397, 600, 5000):       # the rendered body reaches 500 bytes at n = 397
        f = "f" * n
        for c in ('STORE ev FOR c PAYLOAD {"a":1,"%s":2}' % f, 'STORE %s FOR c PAYLOAD {"a":1}' % ("e" * n)):
            st, b = s.post(c)
            bs = body_status(b)
            rows.append(("POST /command " + c, "HTTP %d, body (%d bytes) status %s: %s" % (st, len(b), bs, b.strip()),
                         "HTTP 400 = the status in the body (same as with a 5 character name)", st == 400 and bs == 400))
    # same function behind POST /json
    for n in (5, 600):
        c = json.dumps({"type": "Store", "event_type": "e" * n, "context_id": "c", "payload": {"a": 1}})
        st, b = s.post(c, path="/json-command", ctype="application/json",
                       headers={"X-Auth-User": "admin", "X-Auth-Signature": "00"})   # bypass_auth: not verified, names the user
        rows.append(("POST /json-command " + c, "HTTP %d, body status %s: %s" % (st, body_status(b), b.strip()),
                     "HTTP status = the status in the body (an error either way)", st >= 400 and body_status(b) == st))
    # controls: successful responses, small and large, stay 200 (also with a column called "status")
    st, b = s.post('STORE ev FOR c PAYLOAD {"a":1,"status":500}')
    rows.append(("POST /command STORE ev FOR c PAYLOAD {a:1,status:500}", "HTTP %d %s" % (st, b.strip()), "HTTP 200 (control)", st == 200))
    for i in range(12):
        s.post('STORE ev FOR c%d PAYLOAD {"a":%d,"status":404}' % (i, i))
    for c in ("QUERY ev", "QUERY ev RETURN [status]", "QUERY ev WHERE a = 1", "SHOW PERMISSIONS FOR nobody"):
        st, b = s.post(c)
        rows.append(("POST /command " + c, "HTTP %d, %d bytes: %s" % (st, len(b), b.strip()), "HTTP 200 (control)" if c.startswith("QUERY") else "HTTP status = status in the body (control)",
                     st == 200 if c.startswith("QUERY") else st == body_status(b)))
report(rows)
