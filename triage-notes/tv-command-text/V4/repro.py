#!/usr/bin/env python3
"""V4: input shapes STORE may treat differently from serde_json.
   part 1 (unit): for each payload text, parse_command("STORE ev FOR c PAYLOAD <text>") must give the value serde_json gives, or
                  both must reject (examples/tv_payload.rs). Two float literals where serde_json itself (built without
                  float_roundtrip) is 1 ulp off and sonic_rs is right are listed as KNOWN_SERDE and not counted.
   part 2 (TCP):  accepted shapes are read back before and after FLUSH.
   part 3 (HTTP /command, TCP, /json-command): a command that is not valid UTF-8 must be rejected, not stored altered.
   exit 0 = correct, 1 = violated."""
import json, os, shutil, socket, subprocess, sys, urllib.request, urllib.error
sys.path.insert(0, os.path.join(os.path.dirname(os.path.abspath(__file__)), "..", "common"))
from tvlib import Server, report, build, REPO, TARGET

rows = []
HERE = os.path.dirname(os.path.abspath(__file__))
# ---- part 1 ---------------------------------------------------------------------------------------------------
SHAPES = {
 "unicode escapes": [r'{"\u0061":1}', r'{"a":"\u0041\u00e9\ud83d\ude00"}', r'{"a":"\ud800"}', r'{"a":"\udc00\ud800"}', r'{"\ud800":1}', r'{"a":"\u00"}', r'{"a":"\uZZZZ"}', r'{"a":"\u0000"}', r'{"\u0000":1}'],
 "duplicate keys": ['{"a":1,"a":2}', r'{"a":1,"\u0061":2}', '{"a":{"b":1},"a":{"c":2}}', '{"a":"x","a":1}'],
 "long numbers": ['{"a":123456789012345678901234567890}', '{"a":18446744073709551615}', '{"a":18446744073709551616}', '{"a":9223372036854775808}', '{"a":-9223372036854775808}',
                  '{"a":-9223372036854775809}', '{"a":9007199254740993}', '{"a":1e400}', '{"a":-1e400}', '{"a":1e-400}', '{"a":0.1234567890123456789012345678901234567890}',
                  '{"a":1' + '0' * 400 + '}', '{"a":1.' + '0' * 400 + '1}', '{"a":0.' + '0' * 400 + '1}', '{"a":1E+2}', '{"a":-0}', '{"a":-0.0}', '{"a":4.9e-324}',
                  '{"a":1.7976931348623157e308}', '{"a":1.7976931348623159e308}', '{"a":0e999}', '{"a":12345678901234567890}', '{"a":-12345678901234567890}'],
 "NaN / Infinity": ['{"a":NaN}', '{"a":Infinity}', '{"a":-Infinity}', '{"a":nan}', '{"a":inf}', '{"a":-inf}'],
 "commas": ['{"a":1,}', '{"a":[1,2,]}', '{,"a":1}', '{"a":1,,"b":2}', '{"a":[,1]}'],
 "number syntax": ['{"a":01}', '{"a":+1}', '{"a":.5}', '{"a":1.}', '{"a":0x10}', '{"a":1_000}', '{"a":-}', '{"a":--1}', '{"a":1e}', '{"a":1e+}', '{"a":- 1}', '{"a":1 2}', '{"a":00}', '{"a":-01}'],
 "not JSON": ["{'a':1}", '{a:1}', '{"a":\'x\'}', '{"a":1}{"b":2}', '{"a":1} {"b":2}', '{"a":1}x', '{"a":1 /*c*/}', '{"a":tru}', '{"a":True}', '{"a":nul}', '{"a":truex}', '{"a":1}}', '{{"a":1}'],
 "strings": ['{"a":"x\ty"}', '{"a":"x\x01y"}', '{"a":"x\x7fy"}', '{"a":"\\x41"}', '{"a":"\\a"}', '{"a":"\\/"}', '{"a":"\\b\\f\\n\\r\\t"}', '{"a":"\\\\"}', '{"a":"\\""}', '{"a":"x\\"}', '{"a\\":1}',
             '{"a":"}"}', '{"a":"{"}', '{"}":1}', '{"a":"\\"}"}', '{"a":"\\\\","b":"}"}', '{"a":"@"}', '{"@":1}', '{"a":"<INVALID>"}', '{"a":"\u2028"}', '{"a":"\U0001F680"}', '{"\U0001F680":1}'],
 "whitespace": ['{}', '{ }', '{"a" :1}', '{"a"\t:\t1}', '{\n"a":1\n}', '\ufeff{"a":1}', '{"a":1\ufeff}', '{"a":\u00a01}', '{"a":1\u2028}'],
}
KNOWN_SERDE = ['{"a":2.2250738585072011e-308}', '{"a":9007199254740993.0}']
ex = REPO + "/examples/tv_payload.rs"
os.makedirs(REPO + "/examples", exist_ok=True)
if not os.path.exists(ex):
    shutil.copy(os.path.join(HERE, "..", "common", "tv_payload.rs"), ex)
build(("--example", "tv_payload"))
texts = [(g, t) for g, ts in SHAPES.items() for t in ts] + [("KNOWN_SERDE", t) for t in KNOWN_SERDE]
out = subprocess.run([TARGET + "/debug/examples/tv_payload"], input="".join(json.dumps(t) + "\n" for _, t in texts),
                     stdout=subprocess.PIPE, text=True).stdout.splitlines()
assert len(out) == len(texts)
for (g, t), l in zip(texts, out):
    tag, rest = l.split("\t", 1)
    if g == "KNOWN_SERDE":
        print("[info] %s: %s  (sonic_rs is the correctly rounded one)" % (t, rest.replace("\t", "  ")))
        continue
    rows.append(("[unit %s] STORE ev FOR c PAYLOAD %s" % (g, t), rest.replace("\t", "   "), "S = J (same value, or both reject)", tag == "SAME"))

# ---- part 2 + 3 -------------------------------------------------------------------------------------------------
def post(port, body, path="/command", headers=None):
    req = urllib.request.Request("http://127.0.0.1:%d%s" % (port, path), data=body, method="POST",
                                 headers={"Authorization": "Bearer t", **(headers or {})})
    try:
        with urllib.request.urlopen(req, timeout=10) as r: return r.status, r.read()
    except urllib.error.HTTPError as e: return e.code, e.read()

with Server("v4") as s:
    s.send(['DEFINE ev FIELDS { "i": "int | null", "u": "u64 | null", "f": "float | null", "s": "string | null" }'])
    E2E = [  # payload text, column, value expected back (None = must be rejected)
        (r'{"\u0069":7}', "i", 7), (r'{"s":"\u0041\u00e9\ud83d\ude00"}', "s", "A\u00e9\U0001F600"), (r'{"s":"a\u0000b"}', "s", "a\x00b"),
        ('{"i":1,"i":2}', "i", 2), (r'{"i":1,"\u0069":3}', "i", 3), ('{"i":"x","i":4}', "i", 4),
        ('{"i":9223372036854775807}', "i", 9223372036854775807), ('{"i":-9223372036854775808}', "i", -9223372036854775808), ('{"i":9007199254740993}', "i", 9007199254740993),
        ('{"i":9223372036854775808}', "i", None), ('{"i":123456789012345678901234567890}', "i", None), ('{"i":1e2}', "i", None),
        ('{"u":18446744073709551615}', "u", 18446744073709551615), ('{"u":18446744073709551616}', "u", None),
        ('{"f":123456789012345678901234567890}', "f", 1.2345678901234568e29), ('{"f":1e-400}', "f", 0.0), ('{"f":1.7976931348623157e308}', "f", 1.7976931348623157e308),
        ('{"f":1e400}', "f", None), ('{"f":NaN}', "f", None), ('{"f":Infinity}', "f", None), ('{"f":-Infinity}', "f", None), ('{"i":1,}', "i", None), ('{"i":1,"s":"x",}', "i", None),
    ]
    st = s.send(["STORE ev FOR e%d PAYLOAD %s" % (k, p) for k, (p, _, _) in enumerate(E2E)], wait=0.3)
    def read(ctx, col):
        r = s.send(["QUERY ev FOR " + ctx], wait=0.3)[0]
        cols, vals = None, []
        for line in r.splitlines():
            j = json.loads(line)
            if j.get("type") == "schema": cols = [c["name"] for c in j["columns"]]
            if j.get("type") == "batch": vals += [row[cols.index(col)] for row in j["rows"]]
        return vals
    for phase in ("before FLUSH", "after FLUSH"):
        if phase == "after FLUSH": s.send(["FLUSH"], wait=2)
        for k, (p, col, want) in enumerate(E2E):
            got = read("e%d" % k, col)
            if want is None:
                if phase == "before FLUSH":
                    rows.append(("[tcp] STORE ev FOR e%d PAYLOAD %s" % (k, p), st[k] + " ; QUERY -> " + str(got), "rejected, nothing stored", "200 OK" not in st[k] and got == []))
            else:
                rows.append(("[tcp %s] STORE ev FOR e%d PAYLOAD %s ; QUERY ev FOR e%d" % (phase, k, p, k), "%s ; %s = %r" % (st[k].replace("\n", " "), col, got), "%s = [%r]" % (col, want), got == [want]))

    # part 3: bytes that are not UTF-8
    BAD = [(b'STORE ev FOR b1 PAYLOAD {"s":"a\xffb"}', "b1"), (b'STORE ev FOR b2 PAYLOAD {"s":"a\xfeb"}', "b2"), (b'STORE ev FOR b3 PAYLOAD {"s":"\xed\xa0\x80"}', "b3"),
           (b'STORE ev FOR "b\xff4" PAYLOAD {"s":"x"}', None)]
    before = len(s.send(["QUERY ev"], wait=0.5)[0])
    for body, ctx in BAD:
        code, resp = post(s.http, body)
        stored = read(ctx, "s") if ctx else [l for l in s.send(['QUERY ev WHERE s = "x"'], wait=0.5)[0].splitlines() if '"batch"' in l]
        rows.append(("[http] POST /command %r" % body, "HTTP %d %s ; stored: %r" % (code, resp.decode(errors="replace").strip(), stored),
                     "HTTP 400 and nothing stored (the bytes are not a JSON text; serde_json::from_slice refuses them)", code == 400 and not stored))
    code, resp = post(s.http, b'{"type":"Store","event_type":"ev","context_id":"j1","payload":{"s":"a\xffb"}}', "/json-command", {"X-Auth-User": "bypass", "X-Auth-Signature": "00"})
    rows.append(("[http] POST /json-command {..\"payload\":{\"s\":\"a\\xffb\"}}", "HTTP %d %s ; stored: %r" % (code, resp.decode(errors="replace").strip()[:120], read("j1", "s")),
                 "HTTP 400 and nothing stored (control: this endpoint refuses)", code == 400 and read("j1", "s") == []))
    so = socket.create_connection(("127.0.0.1", s.tcp)); so.settimeout(1)
    so.sendall(b'STORE ev FOR t1 PAYLOAD {"s":"a\xffb"}\n')
    try: ans = so.recv(1000)
    except socket.timeout: ans = b"<timeout>"
    so.close()
    rows.append(("[tcp] b'STORE ev FOR t1 PAYLOAD {\"s\":\"a\\xffb\"}'", "answer %r ; stored: %r" % (ans, read("t1", "s")), "nothing stored (control: TCP closes the connection)", read("t1", "s") == []))
    code, resp = post(s.http, 'STORE ev FOR ok1 PAYLOAD {"s":"a\u00ffb \U0001F600"}'.encode())
    rows.append(("[http] POST /command STORE ev FOR ok1 PAYLOAD {\"s\":\"a\u00ffb \U0001F600\"} (valid UTF-8)", "HTTP %d ; stored: %r" % (code, read("ok1", "s")), "HTTP 200, stored as given (control)", code == 200 and read("ok1", "s") == ["a\u00ffb \U0001F600"]))
    code, resp = post(s.http, b'  \n')
    rows.append(("[http] POST /command (blank body)", "HTTP %d %s" % (code, resp.decode().strip()), "HTTP 400 Empty command (control)", code == 400 and b"Empty command" in resp))
report(rows)
