// throw-away: reads JSON string literals (one per line) from stdin, parses each as a command,
// prints one line per command: OK <debug> / ERR <debug>
use std::io::BufRead;
fn main() {
    let stdin = std::io::stdin();
    for line in stdin.lock().lines() {
        let line = line.unwrap();
        if line.trim().is_empty() { continue; }
        let cmd: String = serde_json::from_str(&line).expect("json string per line");
        match snel_db::command::parser::parse_command(&cmd) {
            Ok(c) => println!("OK {}", format!("{:?}", c).replace('\n', " ")),
            Err(e) => println!("ERR {}", format!("{:?}", e).replace('\n', " ")),
        }
    }
}
