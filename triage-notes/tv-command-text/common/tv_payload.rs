// throw-away: each stdin line is a JSON string literal holding a payload TEXT. Prints, per line,
//   S=<what parse_command("STORE ev FOR c PAYLOAD <text>") gives as payload | ERR ..>  J=<what serde_json::from_str gives | ERR ..>  SAME|DIFF
use std::io::BufRead;
fn main() {
    let stdin = std::io::stdin();
    for line in stdin.lock().lines() {
        let line = line.unwrap();
        if line.trim().is_empty() { continue; }
        let text: String = serde_json::from_str(&line).expect("json string per line");
        let cmd = format!("STORE ev FOR c PAYLOAD {}", text);
        let s = match snel_db::command::parser::parse_command(&cmd) {
            Ok(snel_db::command::Command::Store { payload, .. }) => Ok(payload),
            Ok(other) => Err(format!("not a store: {:?}", other)),
            Err(e) => Err(format!("{:?}", e)),
        };
        let j = serde_json::from_str::<serde_json::Value>(&text).map_err(|e| e.to_string());
        let same = match (&s, &j) { (Ok(a), Ok(b)) => a == b, (Err(_), Err(_)) => true, _ => false };
        let show = |r: &Result<serde_json::Value, String>| match r { Ok(v) => format!("{:?}", v), Err(e) => format!("ERR {}", e.chars().take(90).collect::<String>()) };
        println!("{}\tS={}\tJ={}", if same { "SAME" } else { "DIFF" }, show(&s).replace('\n', " "), show(&j).replace('\n', " "));
    }
}
