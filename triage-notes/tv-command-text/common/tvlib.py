"""helpers for the TV triage repros (scratch only: /var/tmp/tv)."""
import json, os, shutil, socket, subprocess, sys, time, urllib.request, urllib.error

ROOT = "/var/tmp/tv"
REPO = ROOT + "/repo"
TARGET = ROOT + "/target"
ENV = dict(os.environ, CARGO_TARGET_DIR=TARGET)

def build(what=("--bin", "snel_db")):
    r = subprocess.run(["cargo", "build", "--offline", "-q", *what], cwd=REPO, env=ENV,
                       stdout=subprocess.PIPE, stderr=subprocess.STDOUT, text=True)
    if r.returncode != 0:
        print(r.stdout[-3000:]); sys.exit(2)

def parse(cmds):
    """unit level: snel_db::command::parser::parse_command through examples/tv_parse.rs"""
    ex = REPO + "/examples/tv_parse.rs"
    if not os.path.exists(ex):
        os.makedirs(REPO + "/examples", exist_ok=True)
        shutil.copy(os.path.join(os.path.dirname(os.path.abspath(__file__)), "tv_parse.rs"), ex)
    build(("--example", "tv_parse"))
    inp = "".join(json.dumps(c) + "\n" for c in cmds)
    r = subprocess.run([TARGET + "/debug/examples/tv_parse"], input=inp, stdout=subprocess.PIPE, text=True)
    out = r.stdout.splitlines()
    assert len(out) == len(cmds), (len(out), len(cmds), r.stdout[-500:])
    return out

def free_ports(n=3):
    socks, ports = [], []
    for _ in range(n):
        s = socket.socket(); s.bind(("127.0.0.1", 0)); socks.append(s); ports.append(s.getsockname()[1])
    for s in socks: s.close()
    return ports

CFG = '''
[wal]
enabled = true
fsync = false
buffered = false
buffer_size = "1KB"
dir = "{d}/wal/"
flush_each_write = true
fsync_every_n = 1
conservative_mode = false
archive_dir = "{d}/wal/archived/"
compression_level = 3
compression_algorithm = "zstd"
[engine]
fill_factor = 2
data_dir = "{d}/cols"
index_dir = "{d}/index/"
shard_count = 1
event_per_zone = 4
compaction_interval = 3000
sys_io_threshold = 100000
sys_memory_threshold_mb = "1MB"
max_inflight_passives = 8
segments_per_merge = 2
compaction_max_shard_concurrency = 1
[schema]
def_dir="{d}/schema/"
[server]
socket_path = "{d}/sock"
log_level = "error"
output_format = "json"
tcp_addr = "127.0.0.1:{tcp}"
http_addr = "127.0.0.1:{http}"
ws_addr = "127.0.0.1:{ws}"
auth_token = "t"
[playground]
enabled = false
allow_unauthenticated = true
[auth]
bypass_auth = true
rate_limit_enabled = false
[logging]
log_dir = "{d}/logs"
stdout_level = "error"
file_level = "error"
[query]
zone_index_cache_max_entries = 256
column_block_cache_max_bytes = "64MB"
zone_surf_cache_max_bytes = "10MB"
[time]
timezone = "UTC"
week_start = "Mon"
use_calendar_bucketing = true
'''

class Server:
    def __init__(self, name):
        self.d = f"{ROOT}/triage/{name}"
        shutil.rmtree(self.d, ignore_errors=True)
        os.makedirs(self.d)
        self.tcp, self.http, self.ws = free_ports(3)
        open(self.d + "/cfg.toml", "w").write(CFG.format(d=self.d, tcp=self.tcp, http=self.http, ws=self.ws))
        build()
        self.log = open(self.d + "/server.log", "w")
        self.p = subprocess.Popen([TARGET + "/debug/snel_db"], cwd=self.d, stdout=self.log, stderr=subprocess.STDOUT,
                                  env=dict(os.environ, SNELDB_CONFIG=self.d + "/cfg.toml", SNELDB_PRESERVE_DATA="1", RUST_LOG="error"))
        for _ in range(100):
            try:
                socket.create_connection(("127.0.0.1", self.tcp), timeout=0.2).close()
                socket.create_connection(("127.0.0.1", self.http), timeout=0.2).close()
                break
            except OSError:
                time.sleep(0.1)
        else:
            self.stop(); raise RuntimeError("server did not start: " + open(self.d + "/server.log").read()[-1000:])
    def stop(self):
        self.p.kill(); self.p.wait(); self.log.close()   # only the pid started here
    def __enter__(self): return self
    def __exit__(self, *a): self.stop()

    def send(self, cmds, wait=0.5):
        out = []
        s = socket.create_connection(("127.0.0.1", self.tcp), timeout=5)
        s.settimeout(wait)
        for c in cmds:
            s.sendall((c + "\n").encode())
            buf = b""
            while True:
                try:
                    d = s.recv(65536)
                    if not d: break
                    buf += d
                except socket.timeout:
                    break
            out.append(buf.decode(errors="replace").strip())
        s.close()
        return out

    def post(self, body, path="/command", ctype="text/plain", headers=None):
        """returns (status, body)"""
        req = urllib.request.Request(f"http://127.0.0.1:{self.http}{path}", data=body.encode(), method="POST",
                                     headers={"Content-Type": ctype, "Authorization": "Bearer t", **(headers or {})})
        try:
            with urllib.request.urlopen(req, timeout=10) as r:
                return r.status, r.read().decode(errors="replace")
        except urllib.error.HTTPError as e:
            return e.code, e.read().decode(errors="replace")

def short(s, n=160):
    s = s.replace("\n", " ")
    return s if len(s) <= n else s[:n - 20] + f" ...[{len(s)} chars]... " + s[-12:]

def report(rows):
    """rows: (command, observed, expected, ok) -> prints, exits 0/1"""
    bad = 0
    for i, (c, obs, exp, ok) in enumerate(rows, 1):
        print(f"[{i}] {'ok      ' if ok else 'VIOLATED'} >> {short(c)}")
        print(f"      observed: {short(obs, 300)}")
        print(f"      expected: {exp}")
        bad += (not ok)
    print(f"\n{bad} of {len(rows)} violated")
    sys.exit(1 if bad else 0)
